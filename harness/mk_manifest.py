"""Regenerate MANIFEST.json from the table below (kept next to the harness so it stays in step)."""
import json, os
VERIF = os.path.dirname(os.path.dirname(os.path.abspath(__file__)))
ALL = ["C%02d" % i for i in range(1, 21)]

# property -> (design_ref, level text, level_note, technique)
CLAIMED = {
    "C02": ("DESIGN.md 6/C02",
            "Lean 4 theorems about a hand-written model of the cost-table code (mirror law, table = definition, "
            "positions = bucket ids, selected entries sum to the Kemeny score, entries independent of the order of the rankings and of element names: C02_perm, C02_rename, C02_rename_table) for all schemes/datasets, tied to "
            "the code by a differential correspondence run on the table, both matrices and the id order.",
            "Trusted: Lean kernel + {propext, Classical.choice, Quot.sound}; hand translation (validated by the "
            "correspondence run, dyadic penalties so floats are exact); harness/driver encoding.",
            "Lean 4 proof over hand-written model + differential correspondence"),
}
GEN_NOTE = ("Trusted: Lean kernel + {propext, Classical.choice, Quot.sound} (audited per theorem on every run); the hand "
            "translation Python -> Lean (validated by the differential correspondence run on dyadic penalties, where float "
            "arithmetic is exact); harness / driver encoding. See DESIGN.md section 4.")
TECH = "Lean 4 proof over hand-written model + differential correspondence"
CLAIMED.update({
    "C01": ("DESIGN.md 6/C01", "Lean 4 theorems: the model of the n log n routine (prefix sums + merge-sort inversion counting) "
            "returns exactly the pairwise-penalty definition for every valid scheme, dataset and candidate, and refuses "
            "incomplete candidates (C01_score, C01_counts, C01_refuse, C01_holds); tied to the code by comparing refusal, "
            "score and the per-ranking count vectors, up to 100 000 elements in the thorough tier (the proven-equal model is the oracle there).", GEN_NOTE, TECH),
    "C19": ("DESIGN.md 6/C19", "Lean 4 theorems: constructor accepts exactly the documented inputs with the documented "
            "exception (over a PyVal ADT that includes bools, None, strings, NaN and inf), scaling, homogeneity of the Kemeny score, equivalence = proportionality on both "
            "vectors, nickname; tied to the code on well-formed, malformed and near-miss streams.", GEN_NOTE, TECH),
    "C20": ("DESIGN.md 6/C20", "Lean 4 theorems: every Markov move, step and walk (all draw sequences) preserves the dense "
            "bucket numbering; conversion yields non-empty disjoint buckets; complete mode delivers m complete rankings; "
            "tied to the code per single step with a scripted random source.", GEN_NOTE + " The random module is scripted.", TECH),
})
PARTIAL_SOLVER = (" PARTIAL: the ILP solver (CBC / CPLEX) and igraph's components() are parameters of the model: theorems "
                  "are conditional on an optimal feasible point / SCCs in topological order; the latter is checked on every "
                  "sample. CPLEX itself is absent: its code path runs through a stand-in module backed by CBC.")
CLAIMED.update({
    "C03": ("DESIGN.md 6/C03", "Lean 4 theorems, one per algorithm model, that the consensus is well formed over exactly the "
            "universe (Borda, Copeland, KwikSort for every pivot script, PickAPerm, BioConsert with any dense departures, the "
            "ILP decoder for every feasible point, ParCons for any sub-solver returning a ranking of its component); the Lean "
            "predicate is evaluated on the outputs of every configuration of the real code.", GEN_NOTE + PARTIAL_SOLVER, TECH),
    "C04": ("DESIGN.md 6/C04", "Lean 4 theorems: on-demand score = definition and >= 0 (C04_lazy, C04_nonneg), BioConsert's "
            "bookkeeping equals the true score of every returned ranking (C04_dstInit, C04_bioconsert), PickAPerm's minimum "
            "(C10), ILP objective = score of the decoded ranking (C05_objective_decode); predicate evaluated on every "
            "configuration's reported score before and after reading it.", GEN_NOTE + " The solver's own report of its "
            "objective value is trusted (PuLP).", TECH),
    "C05": ("DESIGN.md 6/C05", "Lean 4 theorems about the ILP the code builds: feasible 0/1 points = rankings with ties, "
            "objective = Kemeny score, decoder inverse, optimal feasible point decodes to a global optimum for the plain, "
            "PuLP-pruned and no-tie-pruned row sets, all-optima characterisation, selector falls back to PuLP; the exhaustive "
            "oracle is proved correct (optScore_spec). Tied by comparing the emitted rows / objective and end-to-end optimality.",
            GEN_NOTE + PARTIAL_SOLVER, TECH),
    "C06": ("DESIGN.md 6/C06", "Lean 4 theorems: no back arc between components, L4 regrouping, the partition admits an "
            "optimum, all-tied components, concatenation of per-component optima is a global optimum, flag set iff nothing "
            "delegated and truthful given optimal sub-solutions, projection lemma (and what goes wrong when rankings are "
            "dropped); tied by comparing partition / flag / all-tied mask and end-to-end against exhaustive optima.",
            GEN_NOTE + PARTIAL_SOLVER, TECH),
    "C07": ("DESIGN.md 6/C07", "Lean 4 theorems: the fusion loop terminates within its fuel, returns a partition merging "
            "consecutive components whose consecutive groups are fully robust, and EVERY optimal consensus respects it "
            "(C07_parfront); the consistency walk terminates and decides exactly the stated relation (C07_consistent_iff). "
            "Tied on arcs, robust arcs, partition, walk result.", GEN_NOTE + " igraph's SCC order is an assumption checked per sample.", TECH),
    "C08": ("DESIGN.md 6/C08", "Lean 4 theorems: delta arrays are exact score differences, a search returning nothing has "
            "inspected every target, moves renumber densely, a sweep without move certifies a local optimum, for every "
            "departure ranking, with or without starters (C08_improveOne, C08_run); the sweep loop terminates (C08_terminates: every accepted move lowers an integer score bounded below) and default BioConsert returns local optima unconditionally (C08_default). Tied on the numba kernels directly.",
            GEN_NOTE + " Exact arithmetic on the dyadic grid.", TECH),
    "C09": ("DESIGN.md 6/C09", "Lean 4 theorems: every accepted move decreases the score, the reported score is the minimum "
            "over departures and at most each departure's score, all returned rankings share it (C09_best, C09_holds); "
            "departure rows tied to the real _departure_rankings array.", GEN_NOTE, TECH),
    "C10": ("DESIGN.md 6/C10", "Lean 4 theorem C10_holds: members, minimality, completeness of the returned list, refusal "
            "exactly for incomplete data under a non-unifying scheme.", GEN_NOTE, TECH),
    "C11": ("DESIGN.md 6/C11", "Lean 4 theorems for EVERY pivot script: count formulas = definition, per-step placement, "
            "pivot independence under coherence, unanimous datasets returned unchanged, cheapest placement independent of the order of the rankings and of element names (C11_whereSpec_perm, C11_whereSpec_rename); tied with all pivot scripts "
            "enumerated on small universes.", GEN_NOTE, TECH),
    "C12": ("DESIGN.md 6/C12", "Lean 4 theorems C12_holds / C12_perm: order by mean positional score per variant and family, "
            "refusal rule, independence of ranking order.", GEN_NOTE + " Mean comparison by cross-multiplication.", TECH),
    "C13": ("DESIGN.md 6/C13", "Lean 4 theorems C13_holds (victory classes, scores, totals, order) and C13_counts_perm / C13_perm (counts and consensus independent of the order of the input rankings), C13_counts_rename / C13_rename / C13_features_rename (equivariance under injective renaming of the elements).", GEN_NOTE, TECH),
    "C14": ("DESIGN.md 6/C14", "Lean 4 theorems over all nested configurations: relevant => never refused, complete never "
            "refused, exact refusal for Borda / PickAPerm / BioCo / BioConsert from them; guards of the concrete models; the selector "
            "get_algorithm builds the class each enum member names and the members listed as compatible with any scheme are (C14b); tied "
            "on random nested configurations incl. the stand-in CPLEX ones and through the selector.", GEN_NOTE + PARTIAL_SOLVER, TECH),
    "C15": ("DESIGN.md 6/C15", "PARTIAL by nature: in the Lean model every call is read-only by construction (C15_frame, "
            "C15_history_independent, C15_repeatable); in-place mutation / aliasing in the Python heap is OBSERVED: complete "
            "state snapshots before and after every call of random histories on shared objects, each call repeated on fresh "
            "copies.", GEN_NOTE + " Heap mutation is observed, not proved.", "Lean 4 state-machine model + snapshot differential on shared objects"),
    "C16": ("DESIGN.md 6/C16", "Lean 4 invariant proved for construction and every mutator, hence every reachable state "
            "(C16_reachable), unification and projection; tied by comparing the full view snapshot after every operation of "
            "random histories.", GEN_NOTE, TECH),
    "C17": ("DESIGN.md 6/C17", "Lean 4 theorems: equality iff a reordering matches ranking by ranking; equivalence relation; "
            "invariance under ranking order and member order; multiplicities matter.", GEN_NOTE, TECH),
    "C18": ("DESIGN.md 6/C18", "Lean 4 model of the index-based scanner with Python's string primitives: totality (only "
            "ValueError) for every text, round trip of rendered rankings, file round trip for int and for string elements (C18_file_int, "
            "C18_file_str); tied on renderings, mutated renderings, random strings over the format alphabet and every file reader "
            "of the API.", GEN_NOTE + " ASCII texts plus a few non-ASCII letters and non-decimal digits.", TECH),
})
NOT_YET = "model/theorems not built yet in this round (work in progress; see DESIGN.md section 9)"

checks = []
for pid in ALL:
    if pid in CLAIMED:
        ref, text, note, tech = CLAIMED[pid]
        checks.append({
            "property_id": pid,
            "quick_cmd": "./check %s quick" % pid,
            "thorough_cmd": "./check %s thorough" % pid,
            "evidence_file": "evidence/%s.json" % pid,
            "replay_cmd_template": "./check %s --replay {path}" % pid,
            "engine": "lean-model+correspondence",
            "level_claimed": {"category": "proof", "text": text, "design_ref": ref},
            "level_note": note,
            "technique": tech,
        })
manifest = {
    "version": 1,
    "setup_cmd": "cd lean && lake build",
    "hooks": {"guard": "PIERREANDRIEU_CORANKCO_VERIF", "enable": "no hooks are needed: the harness reaches every "
              "observable from Python (private methods, numba dispatchers, subclassing, stand-in cplex module)",
              "baseline_off_cmd": "cd /repo && /venv/bin/python -m pytest -q -p no:cacheprovider --timeout=900",
              "source_commits": [], "add_only": True},
    "engines": [{"name": "lean-model+correspondence", "path": "lean/ harness/ check",
                 "serves_properties": sorted(CLAIMED),
                 "kind_free_text": "Lean 4 model + theorems (lake project, no Mathlib require), compiled driver, "
                                   "Python differential harness against /repo's working tree"}],
    "checks": checks,
    "not_applicable": [{"property_id": p, "reason": NOT_YET} for p in ALL if p not in CLAIMED],
    "notes": "See DESIGN.md. Every check: lake build + #print axioms audit + correspondence run + evidence.",
}
json.dump(manifest, open(os.path.join(VERIF, "MANIFEST.json"), "w"), indent=1)
print("claimed:", sorted(CLAIMED))
