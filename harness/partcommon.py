"""graph / partition observables shared by C05, C06, C07"""
import lib
import common
import biocommon


def graph_obs(ds, sch, scale):
    """table (ints), arcs, robust arcs, igraph components (lists of ids, igraph's order)"""
    from corankco.algorithms.pairwisebasedalgorithm import PairwiseBasedAlgorithm
    g, tbl, robust = PairwiseBasedAlgorithm.graph_of_elements_with_robust_arcs(ds.get_positions(), sch)
    comps = [list(map(int, c)) for c in g.components()]
    arcs = sorted(set((int(a), int(b)) for a, b in g.get_edgelist() if a != b))
    rob = sorted((int(a), int(b)) for a, b in robust)
    return {"table": biocommon.table_tree(tbl, scale), "arcs": [list(a) for a in arcs], "robust": [list(a) for a in rob],
            "comps": comps}


def ids_of(ds):
    return {ds.mapping_id_elem[i]: i for i in range(ds.nb_elements)}


def groups_as_ids(groups, ids):
    return [sorted(ids[e] for e in g) for g in groups]


def sparse_scheme(rng, dataset_family=None):
    """schemes under which sparse / blocky datasets have many components and cost ties; B5 != T5 often;
    cyclic datasets are paired with cheap-tie schemes half of the time (ties inside cycles become optimal)"""
    if dataset_family == "cyclic" and rng.random() < 0.5:
        return lib.gen_scheme(rng, family="cheap_ties")
    fam = rng.choice(["preset", "preset", "extended", "induced", "grid", "b5t5", "zeroheavy", "cheap_ties", "cheap_ties"])
    if fam == "extended":
        b, t, s = lib.PRESETS["extended"]
        return {"b": list(b), "t": list(t), "scale": s, "family": "extended"}
    if fam == "induced":
        b, t, s = lib.PRESETS["induced"]
        return {"b": list(b), "t": list(t), "scale": s, "family": "induced"}
    if fam == "b5t5":
        sch = lib.gen_scheme(rng, family="grid")
        sch["b"][5] = rng.choice([0, 4, 16])
        sch["t"][5] = rng.choice([0, 1, 2])
        sch["family"] = "b5t5"
        return sch
    return lib.gen_scheme(rng, family=fam)
