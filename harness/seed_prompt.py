"""print the prompt given to an independent sub-agent that seeds a property-breaking change (gets ONLY the property text)"""
import json, sys
pid, wt = sys.argv[1], sys.argv[2]
p = [json.loads(l) for l in open('/verif/properties.jsonl') if json.loads(l)['id'] == pid][0]
print(f"""You are given a scratch git worktree of the Python library `corankco` (rank aggregation) at {wt}. Work ONLY inside {wt}; do not touch or read /repo or /verif. Run Python as `/venv/bin/python` with `PYTHONPATH={wt}` (e.g. `cd {wt} && PYTHONPATH={wt} /venv/bin/python script.py`). The existing test suite is run with `cd {wt} && PYTHONPATH={wt} /venv/bin/python -m pytest -q -p no:cacheprovider tests` (52 tests, ~10 s, all pass now). There is no network. CPLEX is not installed (the exact algorithms fall back to PuLP/CBC).

Here is a semantic property the library is supposed to satisfy:

TITLE: {p['title']}
STATEMENT: {p['statement']}
QUANTIFIED OVER: {p['quantifier']['text']}
RELEVANT FILES: {', '.join(p['anchors']['files'])}

YOUR TASK: make ONE realistic change to the library source (under {wt}/corankco/) that BREAKS this property while the library still imports, and the existing test suite still passes unchanged. It should look like something a maintainer could plausibly commit (a refactoring slip, an off-by-one, a wrong index or operator, a dropped special case, a stale cached value, an "optimisation" that is wrong in a corner, two sites that each look fine alone...). IMPORTANT: the breakage must need something specific to manifest — an unusual input shape (ties + missing elements + particular order, hash-colliding members, an empty ranking, a one-element universe, a particular scheme outside the presets), a particular multi-step sequence of operations, a particular pivot sequence, etc. — NOT something that ordinary use (e.g. the README example or a random complete dataset of 5 elements with the default scheme) would expose at once. Do not break other things wholesale; keep the change small (a few lines).

DELIVERABLES, in the directory {wt}/_deliver/ :
1. `patch.diff` — output of `git -C {wt} diff -- corankco` for your change (only library source files, not the demo).
2. `demo.py` — a small self-contained program (using only the library and the standard library / numpy) that exits with status 0 on the ORIGINAL code and exits non-zero (assert / exception) WITH your change, demonstrating the property violation on a concrete input. Print a short explanation.
3. `note.md` — 5-10 lines: what the change is, why it breaks the property, what specific circumstances are needed for it to manifest, why the test suite does not notice.

VERIFY before finishing, and report the exact commands and outcomes: (a) with your change applied: test suite passes, `demo.py` fails; (b) with your change reverted (`git -C {wt} stash` then `stash pop`, or `git apply -R`): `demo.py` passes. Leave the worktree WITH the change applied and the _deliver directory filled. Final answer: the diff, and the verification outcomes.""")
