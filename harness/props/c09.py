"""C09 — BioConsert is never worse than any of its starting points."""
import lib
import common
import biocommon

ID = "C09"
ANCHORS = ["corankco/algorithms/bioconsert/bioconsert.py"]
RULE = ("full BioConsert runs for nine starter configurations (default, BioCo, Borda, Copeland, PickAPerm, KwikSort, "
        "several at once) on datasets where first-appearance order differs between dataset, unified dataset and starter "
        "consensus; compared: the departure array (_departure_rankings) with the model's rows expressed in the dataset's "
        "ids, the consensus and reported score; predicate: all returned rankings share the reported score, which is <= "
        "the score of every starting point; non-trivial = incomplete dataset with >= 3 elements, or >= 2 starters; "
        "distinct by JSON")
TRUSTED = common.TRUSTED_BASE + ["hand translation of bioconsert.py:252-447 (tied by this run)",
                                 "starting algorithms' own consensus taken from the implementation (Borda, Copeland, "
                                 "PickAPerm, KwikSort are verified by C10-C13)"]
ASSUMPTIONS = ["dyadic penalties with scale < 1000", "KwikSort starter made repeatable (choice -> first element)"]
FUEL = 10000


def budget(tier):
    return 2500 if tier == "quick" else 25000


def gen(rng, index, tier):
    nmax = 7 if tier == "quick" else 10
    fam = rng.choice(["uniform", "near", "sparse", "blocky", "dup", "complete", "late"])
    if fam == "late":
        # elements first seen in a late ranking, several members per bucket
        raw, meta = lib.gen_dataset(rng, nmax=nmax, mmax=4, family="uniform", nmin=3)
        raw = sorted(raw, key=lambda r: sum(len(b) for b in r))
        meta["family"] = "late"
    else:
        raw, meta = lib.gen_dataset(rng, nmax=nmax, mmax=5, family=fam, big=0.02)
    config = rng.choice(biocommon.STARTER_CONFIGS)
    if any(s in config for s in ("borda", "bioco", "pickaperm")) and rng.random() < 0.8:
        sch = common.family_scheme(rng, rng.choice(["unifying", "unifying", "unifying_half", "induced"]))
        if "pickaperm" in config:
            sch = common.family_scheme(rng, "unifying")
    else:
        sch = lib.gen_scheme(rng, family=rng.choice(["preset", "grid", "grid", "preset_mult", "zeroheavy", "fine", "fine", "cheap_ties", "large", "large"]))
    if rng.random() < 0.08 and not meta.get("big"):
        # penalties that are not exactly representable in binary: the float bookkeeping of the local search drifts by a
        # few ulps, so only the predicate is evaluated (reported score within 1e-6 of a grid point), not the model run
        sch = lib.gen_scheme(rng, family="decimal")
    return {"kind": "run", "dataset": raw, "scheme": sch, "config": config, "amo": rng.random() < 0.4, "meta": meta}


def _expand(case):
    """`departures` cases are stored compactly: n elements, a few nearly identical strict rankings (differing near the end,
    where a textual rendering of a long array would not show it), one exact duplicate, one incomplete ranking"""
    import random
    rng = random.Random(case["n"])
    n = case["n"]
    base = list(range(n))
    raw = []
    for j in range(4):
        r = list(base)
        for _ in range(j):
            i = rng.randrange(n - 12, n - 4)
            r[i], r[i + 1] = r[i + 1], r[i]
        raw.append([[e] for e in r])
    raw.append([list(b) for b in raw[1]])
    raw.append([[e] for e in base[:n - 3]])
    c = dict(case)
    c["dataset"] = raw
    return c


def impl(case):
    try:
        if case.get("kind") == "departures":
            from corankco.algorithms.bioconsert.bioconsert import BioConsert
            ds, sch, coder, obs, s = common.prep(_expand(case))
            try:
                dep = BioConsert()._departure_rankings(ds, sch)
                dep = [[int(x) for x in row] for row in dep.tolist()]
            except (AttributeError, TypeError):
                dep = "unavailable"
            return {"obs": obs, "dep": dep}
        return biocommon.run_bio(case)
    except Exception as exc:  # noqa: BLE001
        return {"err": "other:" + type(exc).__name__ + ":" + str(exc)[:200]}


def ops(case, out):
    if "err" not in out and case.get("kind") == "departures":
        return [("bio.departures", [out["obs"], []])]
    if "err" in out or "rankings" not in out:
        return []
    S = lib.scheme_tree(case["scheme"])
    if case["scheme"]["family"] == "decimal":
        sb = out.get("score_before_tol")
        return [("bio.departures", [out["obs"], out["starters_cons"]]),
                ("c09.holds", [S, [out["obs"], [out["rankings"], [sb if isinstance(sb, int) else -1, out["starters_cons"]]]]])]
    res = [("bio.run", [S, [out["obs"], [out["starters_cons"], [int(case["amo"]), [lib.tau(case["scheme"]), FUEL]]]]])]
    if isinstance(out["score_before"], int):
        res.append(("c09.holds", [S, [out["obs"], [out["rankings"], [out["score_before"], out["starters_cons"]]]]]))
    return res


def judge(case, out, answers):
    tags = common.base_tags(case) + ["config:" + case["config"]]
    if "err" in out:
        return {"agree": False, "holds": False, "diff": out["err"], "nontrivial": False, "tags": tags + ["impl-error"]}
    if case.get("kind") == "departures":
        # white-box only: the starting points of the local search, on a universe of more than a thousand elements
        ok = out["dep"] == "unavailable" or out["dep"] == answers[0]
        return {"agree": ok, "holds": True, "nontrivial": True, "tags": tags + ["size:huge", "departures-only"],
                "diff": "" if ok else "departure rankings differ on %d elements: model has %d, impl %d" % (
                    case["n"], len(answers[0]), len(out["dep"]))}
    if "rankings" not in out:
        err = (out.get("run_err") or "").split(":")[0]
        if out.get("starter_err") and err == out["starter_err"] and err in biocommon.REFUSALS:
            return {"agree": True, "holds": True, "diff": "", "nontrivial": False, "tags": tags + ["refused-by-starter"]}
        return {"agree": False, "holds": False, "diff": "run failed: %s" % out.get("run_err"), "nontrivial": False,
                "tags": tags + ["run-error"]}
    if case["scheme"]["family"] == "decimal":
        ok_dep = out["dep"] == "unavailable" or out["dep"] == answers[0]
        return {"agree": ok_dep, "holds": bool(answers[1]), "nontrivial": True, "tags": tags + ["predicate-only"],
                "diff": ("" if ok_dep else "departure rankings differ") +
                        ("" if answers[1] else "; predicate false: reported %s, rankings %s" % (out.get("score_before_tol"), out["rankings"]))}
    mr, ms, mres, mdeps = answers[0]
    diff = []
    if out["dep"] == "unavailable":
        tags = tags + ["internal:departures-unavailable"]
    elif mdeps != out["dep"]:
        diff.append("departure rankings (ids of the dataset): model %s impl %s" % (mdeps, out["dep"]))
    if common.canon_list(mr) != common.canon_list(out["rankings"]):
        diff.append("consensus: model %s impl %s" % (common.canon_list(mr), common.canon_list(out["rankings"])))
    if (ms[0] if ms else None) != out["score_before"]:
        diff.append("reported score: model %s impl %s" % (ms, out["score_before"]))
    holds = bool(answers[1]) if len(answers) > 1 else False
    raw = case["dataset"]
    n = len(lib.dataset_elems(raw))
    nontrivial = (n >= 3 and any(sum(len(b) for b in r) < n for r in raw)) or "+" in case["config"]
    return {"agree": not diff, "holds": holds, "diff": "; ".join(diff)[:3000], "nontrivial": nontrivial, "tags": tags}


def fixed_cases(tier):
    uni = {"b": [0, 2, 2, 0, 2, 2], "t": [2, 2, 0, 2, 2, 0], "scale": 2, "family": "preset"}
    sizes = [1001] if tier == "quick" else [1001, 1024, 1100]
    return [{"kind": "departures", "n": n, "dataset": [], "scheme": uni, "config": "default", "amo": True,
             "meta": {"family": "huge", "kind": "int", "n": n, "m": 6}} for n in sizes]


def shrink(case):
    if case.get("kind") == "departures":
        return []
    return common.shrink_dataset_case(case)
