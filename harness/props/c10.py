"""C10 — PickAPerm returns exactly the best input rankings."""
import lib
import common

ID = "C10"
ANCHORS = ["corankco/algorithms/pickaperm/pickaperm.py", "corankco/dataset.py"]
RULE = ("seeded datasets (complete / incomplete, duplicates, ties) x schemes (unifying and multiples, near-misses "
        "differing only in T or in one entry, other presets, grid) x both values of return_at_most_one_ranking; "
        "compared: returned list, reported score, refusal class; non-trivial = >= 2 distinct minimal inputs or an "
        "incomplete dataset; distinct by JSON")
TRUSTED = common.TRUSTED_BASE + ["hand translation of pickaperm.py:34-110 (tied by this run)",
                                 "the Kemeny routine (C01)"]
ASSUMPTIONS = ["dyadic penalties"]


def budget(tier):
    return 5000 if tier == "quick" else 50000


def gen(rng, index, tier):
    fam = rng.choice(["complete", "dup", "near", "uniform", "sparse", "complete"])
    raw, meta = lib.gen_dataset(rng, nmax=6 if tier == "quick" else 9, mmax=5, family=fam, big=0.03, big_nmax=130)
    if tier == "thorough" and rng.random() < 0.0002:
        # a handful of instances of several hundred elements (thresholds such as 256, 512, 1000 in a "fast path")
        raw, meta = lib.gen_dataset(rng, n_exact=rng.choice([260, 300]), mmax=6)
    if rng.random() < 0.6:
        sch = common.family_scheme(rng, rng.choice(["unifying", "unifying", "near", "unifying_half", "pseudo"]))
    else:
        sch = lib.gen_scheme(rng)
    case = {"dataset": raw, "scheme": sch, "amo": rng.random() < 0.5, "meta": meta}
    if rng.random() < 0.12:
        case["past"] = common.gen_past(rng, raw)
    return case


def impl(case):
    from corankco.algorithms.pickaperm.pickaperm import PickAPerm, InompleteRankingsIncompatibleWithScoringSchemeException
    from corankco.consensus import ConsensusFeature
    try:
        ds, sch, coder, obs, s = common.prep(case)
        if case.get("past"):
            def warm():
                try:
                    PickAPerm().compute_consensus_rankings(ds, sch, case["amo"])
                except InompleteRankingsIncompatibleWithScoringSchemeException:
                    pass
            common.apply_past(ds, sch, case["past"], extra_query=warm)
            obs = lib.observe_dataset(ds, coder)
        try:
            cons = PickAPerm().compute_consensus_rankings(ds, sch, case["amo"])
        except InompleteRankingsIncompatibleWithScoringSchemeException:
            return {"obs": obs, "out": None}
        rs = common.obs_rankings(cons.consensus_rankings, coder)
        return {"obs": obs, "out": rs, "score": lib.to_int(cons.features[ConsensusFeature.KEMENY_SCORE], s)}
    except Exception as exc:  # noqa: BLE001
        return {"err": "other:" + type(exc).__name__ + ":" + str(exc)[:200]}


def ops(case, out):
    if "err" in out:
        return []
    S = lib.scheme_tree(case["scheme"])
    res = [("alg.pickaperm", [int(case["amo"]), [S, out["obs"]]])]
    if out["out"] is None:
        res.append(("c10.holds", [int(case["amo"]), [S, [out["obs"], []]]]))
    elif isinstance(out["score"], int):
        res.append(("c10.holds", [int(case["amo"]), [S, [out["obs"], [[out["out"], [out["score"]]]]]]]))
    return res


def judge(case, out, answers):
    tags = common.base_tags(case) + ["amo" if case["amo"] else "all"]
    if "err" in out:
        return {"agree": False, "holds": False, "diff": out["err"], "nontrivial": False, "tags": tags + ["impl-error"]}
    m = answers[0]
    diff = []
    if m[0] != 0:
        if out["out"] is not None:
            diff.append("model refuses, impl returns %s" % out["out"])
    else:
        mr = common.canon_list(m[1])
        ms = m[2][0] if m[2] else None
        if out["out"] is None:
            diff.append("impl refuses, model returns %s" % mr)
        elif mr != out["out"] or ms != out["score"]:
            diff.append("model %s score %s; impl %s score %s" % (mr, ms, out["out"], out["score"]))
    holds = bool(answers[1]) if len(answers) > 1 else False
    raw = case["dataset"]
    n = len(lib.dataset_elems(raw))
    incomplete = any(sum(len(b) for b in r) < n for r in raw)
    tags.append("refused" if out["out"] is None else "accepted")
    tags.append("incomplete" if incomplete else "complete")
    nontrivial = incomplete or (out["out"] is not None and len(out["out"]) >= 2)
    return {"agree": not diff, "holds": holds, "diff": "; ".join(diff), "nontrivial": nontrivial, "tags": tags}


def shrink(case):
    return common.shrink_dataset_case(case)
