"""C06 — ParCons: the partition admits an optimal consensus; the optimality flag is truthful."""
import lib
import common
import partcommon
import exactcommon
import biocommon

ID = "C06"
ANCHORS = ["corankco/algorithms/parcons/parcons.py", "corankco/partitioning/ordered_partition.py",
           "corankco/algorithms/pairwisebasedalgorithm.py", "corankco/dataset.py"]
RULE = ("sparse / blocky / near / uniform datasets with <= 6 elements (7 thorough) x schemes incl. B5 != T5; ParCons with exact "
        "bound 0 / 2 / 80, auxiliary BioConsert / Borda / KwikSort, CPLEX absent (PuLP sub-solver) and CPLEX API through the "
        "stand-in; compared: weak partitioning = igraph components (checked SCC + topological), flag and all-tied mask vs "
        "the model; predicate: partition of the universe admitting an optimum (Lean exhaustive optima), consensus respects "
        "it, flag set iff nothing delegated, flagged consensus has the optimal score; non-trivial = >= 2 components of which "
        ">= 1 not trivially tiable; distinct by JSON")
TRUSTED = common.TRUSTED_BASE + ["hand translation of parcons.py:77-123 (tied by this run)",
                                 "igraph components(): SCCs in topological order (checked per sample)",
                                 "sub-solver (CBC through PuLP or the stand-in) returns an optimum of the component",
                                 "exhaustive optimum over all weak orders (Lean, n <= 7/8)"]
ASSUMPTIONS = ["dyadic penalties, scale < 1000", "igraph topological SCC order", "solver optimal and feasible"]

AUX = ["bioconsert", "borda", "kwik"]


def budget(tier):
    return 700 if tier == "quick" else 6000


def gen(rng, index, tier):
    nmax = 6 if tier == "quick" else 7
    fam = rng.choice(["sparse", "cyclic", "cyclic", "cyclic", "blocky", "near", "uniform", "dup"])
    raw, meta = lib.gen_dataset(rng, nmax=nmax, mmax=5, family=fam, nmin=2)
    bound = rng.choice([0, 2, 2, 80, 80])
    if rng.random() < 0.08:
        # several components that cannot be all tied, of different sizes, consistently ordered: blocks of 3-4 elements,
        # each a Condorcet cycle (rotations); the exact bound falls between / at the component sizes
        sizes = rng.choice([[3, 3], [3, 3], [3, 4], [4, 3]])
        els = list(range(sum(sizes)))
        rng.shuffle(els)
        blocks, k = [], 0
        for sz in sizes:
            blocks.append(els[k:k + sz])
            k += sz
        m = rng.choice([3, 3, 4, 5])
        raw = []
        for j in range(m):
            r = []
            for blk in blocks:
                rot = (j + rng.choice([0, 0, 1])) % len(blk)
                r.extend([[e] for e in blk[rot:] + blk[:rot]])
            raw.append(r)
        meta = {"family": "multicycle", "kind": "int", "n": len(els), "m": m}
        bound = rng.choice([2, 3, 3, 4, 80])
    absent = rng.random() < 0.12
    if absent:
        # a component that cannot be all tied (a Condorcet cycle on A, plus rankings that tie A) next to elements Z;
        # some rankings hold only Z, i.e. miss the whole component A: they weigh on A's pairs through B[5] / T[5] only
        ids = list(range(5))
        rng.shuffle(ids)
        A, Z = ids[:3], ids[3:3 + rng.choice([1, 2])]
        raw = []
        for j in range(3):
            r = [[e] for e in A[j:] + A[:j]]
            if rng.random() < 0.6:
                r = r + [[z] for z in Z]
            raw.append(r)
        for _ in range(rng.choice([1, 2, 3])):
            raw.append([list(A)] + ([[z] for z in Z] if rng.random() < 0.4 else []))
        for _ in range(rng.choice([1, 2, 3])):
            raw.append([[z] for z in Z] if rng.random() < 0.6 else [list(Z)])
        rng.shuffle(raw)
        meta = {"family": "absent_component", "kind": "int", "n": 3 + len(Z), "m": len(raw)}
        bound = rng.choice([2, 80, 80])
    case = {"dataset": raw, "scheme": partcommon.sparse_scheme(rng, "cyclic" if meta["family"] == "multicycle" else meta["family"]),
            "meta": meta, "bound": bound, "aux": rng.choice(AUX)}
    if absent:
        s8 = 8
        p = rng.choice([4, 5, 6, 8])
        case["scheme"] = {"b": [0, s8, s8, 0, s8, rng.choice([0, 0, 4, 8])], "t": [p, p, 0, p, p, rng.choice([0, 1, 2, 4, 8])],
                          "scale": s8, "family": "b5t5"}
    if rng.random() < 0.4:
        case["cplex"] = "standin"
    return case


def fixed_cases(tier):
    uni = {"b": [0, 2, 2, 0, 2, 2], "t": [2, 2, 0, 2, 2, 0], "scale": 2, "family": "preset"}
    meta = {"family": "fixed", "kind": "int", "n": 5, "m": 4}
    return [{"dataset": [[[2, 3], [1]], [[0]], [[2]], [[4], [2], [1]]], "scheme": uni, "meta": meta, "bound": 80,
             "aux": "bioconsert", "cplex": "standin"},
            {"dataset": [[[2, 3], [1]], [[0]], [[2]], [[4], [2], [1]]], "scheme": uni, "meta": meta, "bound": 80,
             "aux": "bioconsert"}]


def _aux(name):
    from corankco.algorithms.bioconsert.bioconsert import BioConsert
    from corankco.algorithms.borda.borda import BordaCount
    from corankco.algorithms.kwiksort.kwiksortrandom import KwikSortRandom
    return {"bioconsert": BioConsert, "borda": BordaCount, "kwik": KwikSortRandom}[name]()


def impl(case):
    from corankco.algorithms.parcons.parcons import ParCons
    try:
        ds, sch, coder, obs, s = common.prep(case)
        g = partcommon.graph_obs(ds, sch, s)
        out = {"obs": obs, "table": g["table"], "comps": g["comps"]}
        with biocommon.DeterministicChoice():
            alg = ParCons(auxiliary_algorithm=_aux(case["aux"]), bound_for_exact=case["bound"])
            out.update(exactcommon.run_alg(alg, ds, sch, True, coder, s))
        return out
    except Exception as exc:  # noqa: BLE001
        return {"err": "other:" + type(exc).__name__ + ":" + str(exc)[:200]}


def ops(case, out):
    if "err" in out or "rankings_ids" not in out or out["rankings_ids"] is None:
        return []
    t = out["table"]
    cons = out["rankings_ids"][0]
    return [("part.topo", [t, out["comps"]]),
            ("part.parcons", [t, [out["comps"], case["bound"]]]),
            ("c06.holds", [t, [out["comps"], [case["bound"], [out.get("weak_partition", []), [cons, int(out["flag"])]]]]])]


def judge(case, out, answers):
    tags = common.base_tags(case) + ["bound:%d" % case["bound"], "aux:" + case["aux"], "cplex:" + case.get("cplex", "absent")]
    if "err" in out:
        return {"agree": False, "holds": False, "diff": out["err"], "nontrivial": False, "tags": tags + ["impl-error"]}
    if "run_err" in out:
        err = out["run_err"].split(":")[0]
        if err in biocommon.REFUSALS and case["aux"] == "borda":
            return {"agree": True, "holds": True, "diff": "", "nontrivial": False, "tags": tags + ["refused-by-auxiliary"]}
        return {"agree": False, "holds": False, "diff": "ParCons failed: " + out["run_err"], "nontrivial": False,
                "tags": tags + ["run-error:" + err]}
    diff = []
    if not answers[0]:
        diff.append("ASSUMPTION VIOLATED: igraph components are not the SCCs in topological order: %s" % out["comps"])
    mpart, mflag, mask = answers[1]
    if [sorted(g) for g in mpart] != out.get("weak_partition"):
        diff.append("weak partitioning: model %s impl %s" % (mpart, out.get("weak_partition")))
    if bool(mflag) != out["flag"]:
        diff.append("necessarily-optimal flag: model %s impl %s" % (bool(mflag), out["flag"]))
    # all-tied components appear as single buckets of the consensus
    cons = out["rankings_ids"][0]
    for comp, tied in zip(out["comps"], mask):
        if tied and sorted(comp) not in cons:
            diff.append("component %s can be all tied but is not a bucket of the consensus %s" % (comp, cons))
    holds = bool(answers[2])
    nontrivial = len(out["comps"]) >= 2 and not all(mask)
    tags.append("flag:%s" % out["flag"])
    if not all(mask):
        tags.append("has-nontrivial-component")
    return {"agree": not diff, "holds": holds, "diff": "; ".join(diff)[:3000], "nontrivial": nontrivial, "tags": tags}


def shrink(case):
    return common.shrink_dataset_case(case)
