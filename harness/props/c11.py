"""C11 — KwikSort: placement relative to each step's pivot; pivot-independence when preferences cohere."""
import lib
import common

ID = "C11"
ANCHORS = ["corankco/algorithms/kwiksort/kwiksortabs.py", "corankco/algorithms/kwiksort/kwiksortrandom.py"]
RULE = ("seeded datasets (incl. identical rankings and near-unanimous ones so that preferences cohere) x valid "
        "schemes; KwikSortRandom subclassed with a scripted _get_pivot: ALL pivot scripts enumerated for <= 4 elements "
        "(<= 5 thorough), random scripts above; compared: _where_should_it_be on all ordered pairs, the consensus, the "
        "(remaining, pivot) log per step; non-trivial = >= 1 incomplete ranking with a tie and >= 2 recursion levels; "
        "distinct by JSON")
TRUSTED = common.TRUSTED_BASE + ["hand translation of kwiksortabs.py:91-122 and kwiksortrandom.py:32-86 (tied by this run)",
                                 "random.choice (replaced by a scripted pivot)"]
ASSUMPTIONS = ["dyadic penalties", "the pivot is one of the remaining elements (random.choice)"]


def budget(tier):
    return 1500 if tier == "quick" else 15000


def gen(rng, index, tier):
    fam = rng.choice(["uniform", "near", "dup", "complete", "sparse", "identical", "identical"])
    nmax = 6 if tier == "quick" else 8
    if fam == "identical":
        raw, meta = lib.gen_dataset(rng, nmax=nmax, mmax=1, family="complete")
        raw = [[list(b) for b in raw[0]] for _ in range(rng.randint(1, 4))]
        meta["family"] = "identical"
    else:
        raw, meta = lib.gen_dataset(rng, nmax=nmax, mmax=5, family=fam, big=0.02, big_nmax=16)
        if rng.random() < 0.6 and len(lib.dataset_elems(raw)) >= 3:
            # make sure an incomplete ranking with a tie is present (the counts of _where_should_it_be then mix
            # "tied", "only one ranked" and "none ranked")
            els = lib.dataset_elems(raw)
            sub = rng.sample(els, rng.randint(2, len(els) - 1))
            r = lib.gen_ranking(rng, sub, 0.7, "complete")
            if all(len(b) == 1 for b in r) and len(r) >= 2:
                r = [r[0] + r[1]] + r[2:]
            raw.insert(rng.randrange(len(raw) + 1), r)
    n = len(lib.dataset_elems(raw))
    exhaustive = n <= (4 if tier == "quick" else 5)
    scripts = None if exhaustive else [[rng.randrange(0, 50) for _ in range(n)] for _ in range(3)]
    sch = lib.gen_scheme(rng, family=rng.choice(["preset", "preset", "grid", "preset_mult", "zeroheavy"]))
    return {"dataset": raw, "scheme": sch, "scripts": scripts, "meta": meta}


def _make_alg(script, log):
    from corankco.algorithms.kwiksort.kwiksortrandom import KwikSortRandom

    class Scripted(KwikSortRandom):
        def _get_pivot(self, mapping_elements_id, elements, positions, scoring_scheme):
            k = len(log)
            idx = script[k] if k < len(script) else 0
            pivot = elements[idx % len(elements)]
            log.append((list(elements), pivot, len(elements)))
            return pivot
    return Scripted()


def _next_script(script, arities):
    """odometer over the tree of pivot choices: arities[i] = number of options at call i for this script"""
    s = [(script[i] if i < len(script) else 0) for i in range(len(arities))]
    i = len(s) - 1
    while i >= 0:
        if s[i] + 1 < arities[i]:
            return s[:i] + [s[i] + 1]
        i -= 1
    return None


def impl(case):
    import numpy as np
    try:
        ds, sch, coder, obs, s = common.prep(case)
        ids = {ds.mapping_id_elem[i]: i for i in range(ds.nb_elements)}
        runs = []

        def one(script):
            log = []
            alg = _make_alg(script, log)
            cons = alg.compute_consensus_rankings(ds, sch, True)
            rs = common.obs_rankings(cons.consensus_rankings, coder)
            order = [ids[e] for e in log[0][0]] if log else []
            steps = [[[coder.code(e.value) for e in rem], coder.code(p.value)] for rem, p, _ in log]
            eff = [(script[k] if k < len(script) else 0) for k in range(len(log))]
            return {"script": eff, "order": order, "steps": steps, "out": rs}, [a for _, _, a in log]

        if case["scripts"] is None:
            script = []
            count = 0
            while script is not None and count < 2000:
                run, ar = one(script)
                runs.append(run)
                count += 1
                script = _next_script(run["script"], ar)
        else:
            for script in case["scripts"]:
                runs.append(one(script)[0])
        # _where_should_it_be on all ordered pairs
        from corankco.algorithms.kwiksort.kwiksortrandom import KwikSortRandom
        pos = ds.get_positions()
        spn = np.asarray(sch.penalty_vectors)
        alg = KwikSortRandom()
        try:
            where = [[int(alg._where_should_it_be(pos[p], pos[e], spn)) for e in range(ds.nb_elements)]
                     for p in range(ds.nb_elements)]
        except (AttributeError, TypeError):
            where = None   # private helper renamed / re-shaped: this white-box comparison is skipped
        return {"obs": obs, "runs": runs, "where": where}
    except Exception as exc:  # noqa: BLE001
        return {"err": "other:" + type(exc).__name__ + ":" + str(exc)[:200]}


def ops(case, out):
    if "err" in out:
        return []
    S = lib.scheme_tree(case["scheme"])
    res = [("alg.where", [S, out["obs"]])]
    for run in out["runs"]:
        res.append(("alg.kwik", [S, [out["obs"], [run["order"], run["script"]]]]))
        if len(run["out"]) == 1:
            res.append(("c11.holds", [S, [out["obs"], [run["out"][0], run["steps"]]]]))
        else:
            res.append(("c11.holds", [S, [out["obs"], [[], []]]]))
    return res


def judge(case, out, answers):
    tags = common.base_tags(case)
    if "err" in out:
        return {"agree": False, "holds": False, "diff": out["err"], "nontrivial": False, "tags": tags + ["impl-error"]}
    diff = []
    if out["where"] is not None and answers[0] != out["where"]:
        diff.append("_where_should_it_be: model %s impl %s" % (answers[0], out["where"]))
    holds = True
    coherent = False
    outs = set()
    for k, run in enumerate(out["runs"]):
        m = lib.canon_ranking(answers[1 + 2 * k][0])
        msteps = [[st[0], st[1]] for st in answers[1 + 2 * k][1]]
        h, coh = answers[2 + 2 * k]
        coherent = bool(coh)
        if [m] != run["out"]:
            diff.append("script %s: model %s impl %s" % (run["script"], m, run["out"]))
        if msteps != run["steps"]:
            diff.append("script %s: step log model %s impl %s" % (run["script"], msteps, run["steps"]))
        if not h:
            holds = False
        outs.add(lib.jdump(run["out"]))
    if coherent and len(outs) > 1:
        holds = False
    tags.append("coherent" if coherent else "incoherent")
    tags.append("exhaustive-scripts" if case["scripts"] is None else "random-scripts")
    tags.append("runs:%d" % min(len(out["runs"]), 50))
    raw = case["dataset"]
    n = len(lib.dataset_elems(raw))
    nontrivial = (any(sum(len(b) for b in r) < n and any(len(b) > 1 for b in r) for r in raw)
                  and any(len(run["steps"]) >= 2 for run in out["runs"]))
    return {"agree": not diff, "holds": holds, "diff": "; ".join(diff)[:2000], "nontrivial": nontrivial, "tags": tags}


def shrink(case):
    for c in common.shrink_dataset_case(case):
        yield c
