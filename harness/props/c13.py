"""C13 — Copeland ranks by pairwise victories and reports consistent features."""
import lib
import common

ID = "C13"
ANCHORS = ["corankco/algorithms/copeland/copeland.py", "corankco/algorithms/pairwisebasedalgorithm.py"]
RULE = ("seeded datasets x valid schemes (presets, multiples, grid, fingerprint, zero-heavy); compared: consensus, "
        "per-element doubled scores and victory/equality/defeat counts; non-trivial = >= 3 elements with >= 1 "
        "equal-cost pair and >= 1 strict pair; distinct by JSON")
TRUSTED = common.TRUSTED_BASE + ["hand translation of copeland.py:27-143 (tied by this run)"]
ASSUMPTIONS = ["dyadic penalties"]


def budget(tier):
    return 8000 if tier == "quick" else 80000


def gen(rng, index, tier):
    raw, meta = lib.gen_dataset(rng, nmax=7 if tier == "quick" else 10, mmax=5, big=0.03, big_nmax=130)
    if tier == "thorough" and rng.random() < 0.0001:
        # a handful of instances of several hundred elements (thresholds such as 256, 512, 1000 in a "fast path")
        raw, meta = lib.gen_dataset(rng, n_exact=rng.choice([260, 300]), mmax=6)
    n = len(lib.dataset_elems(raw))
    return {"dataset": raw, "scheme": lib.gen_scheme(rng, max_pairs=len(raw) * n * n + 1), "meta": meta}


def impl(case):
    from corankco.algorithms.copeland.copeland import CopelandMethod
    try:
        ds, sch, coder, obs, s = common.prep(case)
        cons = CopelandMethod().compute_consensus_rankings(ds, sch)
        rs = common.obs_rankings(cons.consensus_rankings, coder)
        ids = [ds.mapping_id_elem[i] for i in range(ds.nb_elements)]
        sc = cons.copeland_scores
        vic = cons.copeland_victories
        keys_ok = set(sc.keys()) == set(ids) and set(vic.keys()) == set(ids)
        return {"obs": obs, "out": rs, "scores2": [lib.to_int(sc[e], 2) for e in ids],
                "res": [[int(x) for x in vic[e]] for e in ids], "keys_ok": keys_ok}
    except Exception as exc:  # noqa: BLE001
        return {"err": "other:" + type(exc).__name__ + ":" + str(exc)[:200]}


def ops(case, out):
    if "err" in out:
        return []
    S = lib.scheme_tree(case["scheme"])
    res = [("alg.copeland", [S, out["obs"]])]
    if len(out["out"]) == 1 and all(isinstance(x, int) and x >= 0 for x in out["scores2"]):
        res.append(("c13.holds", [S, [out["obs"], [out["out"][0], [out["scores2"], out["res"]]]]]))
    return res


def judge(case, out, answers):
    tags = common.base_tags(case)
    if "err" in out:
        return {"agree": False, "holds": False, "diff": out["err"], "nontrivial": False, "tags": tags + ["impl-error"]}
    r, sc, res = answers[0]
    diff = []
    if [lib.canon_ranking(r)] != out["out"]:
        diff.append("consensus: model %s impl %s" % (lib.canon_ranking(r), out["out"]))
    if sc != out["scores2"]:
        diff.append("scores: model %s impl %s" % (sc, out["scores2"]))
    if res != out["res"]:
        diff.append("victories: model %s impl %s" % (res, out["res"]))
    holds = (bool(answers[1]) if len(answers) > 1 else False) and out["keys_ok"]
    n = len(out["scores2"])
    nontrivial = n >= 3 and any(r[1] > 0 for r in out["res"]) and any(r[0] > 0 for r in out["res"])
    return {"agree": not diff, "holds": holds, "diff": "; ".join(diff), "nontrivial": nontrivial, "tags": tags}


def shrink(case):
    return common.shrink_dataset_case(case)
