"""C07 — ParFront partition is respected by every optimal consensus; consistent_with decides exactly that relation."""
import signal
import lib
import common
import partcommon

ID = "C07"
ANCHORS = ["corankco/partitioning/ordered_partition.py", "corankco/algorithms/pairwisebasedalgorithm.py"]
RULE = ("kinds: front (sparse / blocky / uniform datasets x schemes with cost ties, <= 7 elements so that the Lean "
        "exhaustive optimum enumerates ALL optimal consensuses: arcs, robust arcs, igraph components checked to be "
        "the SCCs in topological order, parfront_partition vs the model's merge loop, every optimum consistent with it), "
        "consistent (partition, consensus) pairs: consistent, straddling bucket, swapped groups, foreign element, "
        "fewer / more elements; non-trivial = >= 3 components and >= 1 fusion, or an inconsistent pair; distinct by JSON")
TRUSTED = common.TRUSTED_BASE + ["hand translation of ordered_partition.py:90-136,166-216 and pairwisebasedalgorithm.py:179-205",
                                 "igraph components(): SCCs in topological order (checked on every sample by Spec.isTopoSCC)",
                                 "exhaustive optimum over all weak orders (Lean, n <= 7/8)"]
ASSUMPTIONS = ["dyadic penalties", "igraph returns the strongly connected components in a topological order"]


def budget(tier):
    return 2500 if tier == "quick" else 25000


def gen(rng, index, tier):
    kind = rng.choice(["front", "front", "consistent"])
    if kind == "front":
        nmax = 6 if tier == "quick" else 7
        fam = rng.choice(["sparse", "blocky", "cyclic", "cyclic", "uniform", "near", "complete"])
        raw, meta = lib.gen_dataset(rng, nmax=nmax, mmax=5, family=fam, nmin=2)
        return {"kind": kind, "dataset": raw, "scheme": partcommon.sparse_scheme(rng, meta["family"]), "meta": meta}
    n = rng.randint(1, 7)
    elems = list(range(n))
    rng.shuffle(elems)
    # partition: cut the shuffled list into non-empty groups
    P = []
    for e in elems:
        if P and rng.random() < 0.5:
            P[-1].append(e)
        else:
            P.append([e])
    # consistent consensus: refine each group into buckets, keep group order
    c = []
    for g in P:
        gg = list(g)
        rng.shuffle(gg)
        for e in gg:
            if c and c[-1][0] in g and rng.random() < 0.4:
                c[-1].append(e)
            else:
                c.append([e])
    var = rng.choice(["consistent", "consistent", "straddle", "swap", "foreign", "fewer", "more", "merge_all"])
    if var == "straddle" and len(c) >= 2:
        i = rng.randrange(len(c) - 1)
        c = c[:i] + [c[i] + c[i + 1]] + c[i + 2:]
    elif var == "swap" and len(c) >= 2:
        i, j = rng.sample(range(len(c)), 2)
        c[i], c[j] = c[j], c[i]
    elif var == "foreign":
        i = rng.randrange(len(c))
        k = rng.randrange(len(c[i]))
        c[i][k] = n + 5
    elif var == "fewer" and n >= 2:
        x = rng.choice(elems)
        c = [b for b in [[e for e in b if e != x] for b in c] if b]
    elif var == "more":
        c.insert(rng.randrange(len(c) + 1), [n + 7])
    elif var == "merge_all":
        c = [[e for b in c for e in b]]
    return {"kind": kind, "P": P, "c": c, "var": var}


class _Timeout(Exception):
    pass


def _alarm(signum, frame):
    raise _Timeout()


def impl(case):
    from corankco.partitioning.ordered_partition import OrderedPartition
    from corankco.consensus import Consensus
    from corankco.ranking import Ranking
    from corankco.element import Element
    try:
        if case["kind"] == "front":
            ds, sch, coder, obs, s = common.prep(case)
            g = partcommon.graph_obs(ds, sch, s)
            ids = partcommon.ids_of(ds)
            pc = OrderedPartition.parcons_partition(ds, sch)
            pf = OrderedPartition.parfront_partition(ds, sch)
            g.update({"obs": obs, "parcons": partcommon.groups_as_ids(pc.partition, ids),
                      "parfront": partcommon.groups_as_ids(pf.partition, ids)})
            return g
        P = OrderedPartition([{Element(e) for e in g} for g in case["P"]])
        cons = Consensus([Ranking([lib.ordered_set(b) for b in case["c"]])])
        old = signal.signal(signal.SIGALRM, _alarm)
        signal.alarm(5)
        try:
            res = bool(P.consistent_with(cons))
        except _Timeout:
            return {"res": "timeout"}
        finally:
            signal.alarm(0)
            signal.signal(signal.SIGALRM, old)
        coder = lib.Coder()
        return {"res": res, "c_obs": [[e.value for e in b] for b in cons.consensus_rankings[0].buckets]}
    except Exception as exc:  # noqa: BLE001
        return {"err": "other:" + type(exc).__name__ + ":" + str(exc)[:200]}


def ops(case, out):
    if "err" in out:
        return []
    if case["kind"] == "front":
        S = lib.scheme_tree(case["scheme"])
        t = out["table"]
        return [("part.graph", [S, out["obs"]]), ("part.topo", [t, out["comps"]]),
                ("part.parfront", [t, out["comps"]]), ("c07.holds", [t, [out["comps"], out["parfront"]]])]
    if out.get("res") == "timeout":
        return [("part.consistent", [case["P"], case["c"]])]
    return [("part.consistent", [case["P"], out["c_obs"]])]


def judge(case, out, answers):
    tags = ["kind:" + case["kind"]]
    if "err" in out:
        return {"agree": False, "holds": False, "diff": out["err"], "nontrivial": False, "tags": tags + ["impl-error"]}
    diff = []
    if case["kind"] == "front":
        tags += common.base_tags(case)
        arcs, rob = answers[0]
        if sorted(map(list, arcs)) != out["arcs"]:
            diff.append("arcs: model %s impl %s" % (sorted(map(list, arcs)), out["arcs"]))
        if sorted(map(list, rob)) != out["robust"]:
            diff.append("robust arcs: model %s impl %s" % (sorted(map(list, rob)), out["robust"]))
        topo = bool(answers[1])
        if not topo:
            diff.append("ASSUMPTION VIOLATED: igraph components are not the SCCs in topological order: %s" % out["comps"])
        if [sorted(c) for c in out["comps"]] != out["parcons"]:
            diff.append("parcons_partition %s differs from the components %s" % (out["parcons"], out["comps"]))
        mpf = [sorted(g) for g in answers[2]]
        if mpf != out["parfront"]:
            diff.append("parfront: model %s impl %s" % (mpf, out["parfront"]))
        holds = bool(answers[3])
        ncomp = len(out["comps"])
        fused = len(out["parfront"]) < ncomp
        tags.append("comps:%d" % min(ncomp, 6))
        if fused:
            tags.append("fusion")
        if len(out["parfront"]) >= 2:
            tags.append("parfront-groups>=2")
        nontrivial = ncomp >= 3 and fused
    else:
        m, spec = answers[0]
        impl_res = {True: 1, False: 0, "timeout": -1}[out["res"]]
        if m != impl_res:
            diff.append("consistent_with: model %s impl %s" % (m, impl_res))
        holds = impl_res == int(bool(spec))
        tags.append("var:" + case["var"])
        tags.append("res:%s" % out["res"])
        nontrivial = not bool(spec) or len(case["P"]) >= 2
    return {"agree": not diff, "holds": holds, "diff": "; ".join(diff)[:3000], "nontrivial": nontrivial, "tags": tags}


def shrink(case):
    if case["kind"] == "front":
        return common.shrink_dataset_case(case)
    return []
