"""C02 — pairwise cost table matches the definition, mirror law, positions vs bucket ids, sums to Kemeny."""
import lib

ID = "C02"
ANCHORS = ["corankco/algorithms/pairwisebasedalgorithm.py", "corankco/dataset.py"]
RULE = ("seeded datasets (families uniform/near/sparse/blocky/dup/complete; int, sparse-int, hash-colliding, str "
        "elements) x valid schemes (presets, multiples, dyadic grid, fingerprint, zero-heavy) x a complete candidate; "
        "non-trivial = >=2 rankings, >=1 tie, >=1 unranked element, candidate with >=1 tie, non-preset scheme; "
        "distinct by canonical JSON of the case")
TRUSTED = ["Lean 4 kernel", "axioms: propext, Classical.choice, Quot.sound (audited per theorem)",
           "hand translation of pairwisebasedalgorithm.py:13-96 and dataset.py:382-408 (tied by this run)",
           "harness encoding / Lean driver parser", "float64 exact on the dyadic penalty grid"]
# 15% of the datasets have a past: matrices and table asked, dataset modified in place, table asked again
ASSUMPTIONS = ["penalties are dyadic rationals: float arithmetic of the implementation is exact on them"]


def budget(tier):
    return 8000 if tier == "quick" else 80000


def gen(rng, index, tier):
    nmax = 7 if tier == "quick" else 10
    raw, meta = lib.gen_dataset(rng, nmax=nmax, mmax=5 if tier == "quick" else 7, big=0.02, big_nmax=130)
    if tier == "thorough" and rng.random() < 0.0001:
        # a handful of instances of several hundred elements (thresholds such as 256 in a "fast path")
        raw, meta = lib.gen_dataset(rng, n_exact=rng.choice([260, 300]), mmax=6)
    elems = lib.dataset_elems(raw)
    n = len(elems)
    sch = lib.gen_scheme(rng, max_pairs=len(raw) * n * (n - 1) // 2 + 1)
    cand, _ = lib.gen_candidate(rng, elems, "exact")
    case = {"dataset": raw, "scheme": sch, "candidate": cand, "meta": meta}
    if rng.random() < 0.15:
        # a dataset with a past: queried (matrices, table), modified in place, then the table is asked again
        import common
        case["past"] = common.gen_past(rng, raw)
        if rng.random() < 0.5 and not any(len(r) == 0 for r in raw):
            case["dataset"] = raw[:1] + [[]] + raw[1:]
            case["past"] = [["query"], ["remove_empty"]]
    return case


SMALL_SCHEMES = [
    {"b": [0, 1, 40, 1600, 64000, 2560000], "t": [102400000, 102400000, 0, 4096000000, 4096000000, 163840000000], "scale": 1,
     "family": "fingerprint"},
    {"b": [0, 2, 2, 0, 2, 2], "t": [2, 2, 0, 2, 2, 0], "scale": 2, "family": "preset"},
    {"b": [0, 8, 3, 1, 5, 7], "t": [2, 2, 0, 6, 6, 1], "scale": 8, "family": "grid"},
]


def fixed_cases(tier):
    """thorough: EXHAUSTIVE small scope — every dataset of <= 2 rankings (with ties, incomplete, empty) over <= 3
    elements x every complete candidate x three schemes (fingerprint, preset, one with all 12 penalties distinct)"""
    if tier != "thorough":
        return []
    cases = []
    rks = lib.all_rankings_over_subsets([0, 1, 2])
    for i, r1 in enumerate(rks):
        for r2 in [None] + rks[i:]:
            raw = [r1] if r2 is None else [r1, r2]
            elems = lib.dataset_elems(raw)
            if not elems:
                continue
            for cand in lib.weak_orders(elems):
                for sch in SMALL_SCHEMES:
                    cases.append({"dataset": raw, "scheme": sch, "candidate": cand,
                                  "meta": {"family": "exhaustive-small", "kind": "int", "n": len(elems), "m": len(raw)}})
    return cases


def impl(case):
    from corankco.algorithms.pairwisebasedalgorithm import PairwiseBasedAlgorithm
    coder = lib.Coder()
    try:
        ds = lib.make_dataset(case["dataset"])
        sch = lib.make_scheme(case["scheme"])
        candidate = _conv_candidate(case, ds)
        if case.get("past"):
            import common
            common.apply_past(ds, sch, case["past"],
                              extra_query=lambda: (PairwiseBasedAlgorithm.pairwise_cost_matrix(ds.get_positions(), sch),
                                                   PairwiseBasedAlgorithm.pairwise_cost_matrix(ds.get_bucket_ids(), sch)))
            # the dataset may have re-homogenised its element types (int-like names left alone become ints)
            left = {str(e.value) for e in ds.universe}
            kept = dict(case, candidate=[b2 for b2 in ([x for x in b if str(x) in left] for b in case["candidate"]) if b2])
            candidate = _conv_candidate(kept, ds)
        obs = lib.observe_dataset(ds, coder)
        s = case["scheme"]["scale"]
        univ = [coder.code(ds.mapping_id_elem[i].value) for i in range(ds.nb_elements)]
        pos = ds.get_positions()
        bid = ds.get_bucket_ids()
        tp = PairwiseBasedAlgorithm.pairwise_cost_matrix(pos, sch)
        tb = PairwiseBasedAlgorithm.pairwise_cost_matrix(bid, sch)
        cand = lib.observe_ranking(lib.make_ranking(candidate), coder)
        return {"obs": obs, "univ": univ, "pos": pos.tolist(), "bid": bid.tolist(),
                "tp": [[[lib.to_int(x, s) for x in cell] for cell in row] for row in tp.tolist()],
                "tb": [[[lib.to_int(x, s) for x in cell] for cell in row] for row in tb.tolist()],
                "cand": cand}
    except Exception as exc:  # noqa: BLE001
        return {"err": "other:" + type(exc).__name__ + ":" + str(exc)[:200]}


def _conv_candidate(case, ds):
    """candidate values converted the way the dataset homogenised its elements (int-like strings -> int)."""
    types = {type(e.value) for e in ds.universe}
    if types == {int}:
        return [[int(x) for x in b] for b in case["candidate"]]
    return [[str(x) for x in b] for b in case["candidate"]]


def ops(case, out):
    if "err" in out:
        return []
    S = lib.scheme_tree(case["scheme"])
    tbl = lambda t: [[[c[0], [c[1], c[2]]] for c in row] for row in t]  # noqa: E731  Cost = Int x (Int x Int)
    ok = all(isinstance(x, int) for t in (out["tp"], out["tb"]) for row in t for c in row for x in c)
    res = [("c02.model", [S, out["obs"]])]
    if ok:
        res.append(("c02.holds", [S, [out["obs"], [out["cand"], [tbl(out["tp"]), tbl(out["tb"])]]]]))
    return res


def _untbl(t):
    return [[[c[0], c[1][0], c[1][1]] for c in row] for row in t]


def judge(case, out, answers):
    if "err" in out:
        return {"agree": False, "holds": False, "diff": out["err"], "nontrivial": False, "tags": ["impl-error"]}
    univ, pos, bid, tp, tb = answers[0]
    diff = []
    if univ != out["univ"]:
        diff.append("id order: model %s impl %s" % (univ, out["univ"]))
    if pos != out["pos"]:
        diff.append("positions differ")
    if bid != out["bid"]:
        diff.append("bucket ids differ")
    if _untbl(tp) != out["tp"]:
        diff.append("table(positions) differs")
    if _untbl(tb) != out["tb"]:
        diff.append("table(bucket ids) differs")
    holds = bool(answers[1]) if len(answers) > 1 else False
    raw = case["dataset"]
    n = len(out["univ"])
    nontrivial = (len(raw) >= 2 and any(len(b) > 1 for r in raw for b in r)
                  and any(sum(len(b) for b in r) < n for r in raw)
                  and any(len(b) > 1 for b in case["candidate"])
                  and case["scheme"]["family"] not in ("preset",))
    tags = ["family:" + case["meta"]["family"], "kind:" + case["meta"]["kind"], "scheme:" + case["scheme"]["family"],
            "n:%d" % n, "m:%d" % len(raw)]
    if any(len(r) == 0 for r in raw):
        tags.append("has-empty-ranking")
    if case.get("past"):
        tags.append("dataset-with-a-past")
    if case["meta"].get("big"):
        tags.append("size:big")
    return {"agree": not diff, "holds": holds, "diff": "; ".join(diff), "nontrivial": nontrivial, "tags": tags}


def shrink(case):
    raw = case["dataset"]
    # drop a ranking
    for i in range(len(raw)):
        if len(raw) > 1:
            c = dict(case)
            c["dataset"] = raw[:i] + raw[i + 1:]
            if any(c["dataset"]) and set(lib.dataset_elems(c["dataset"])) == set(lib.dataset_elems(raw)):
                yield c
    # drop an element everywhere
    for e in lib.dataset_elems(raw):
        nd = [[[x for x in b if x != e] for b in r] for r in raw]
        nd = [[b for b in r if b] for r in nd]
        if any(nd):
            c = dict(case)
            c["dataset"] = nd
            c["candidate"] = [b for b in [[x for x in b if x != e] for b in case["candidate"]] if b]
            if c["candidate"]:
                yield c
    # simpler scheme
    if case["scheme"]["family"] != "preset":
        c = dict(case)
        b, t, s = lib.PRESETS["unifying"]
        c["scheme"] = {"b": list(b), "t": list(t), "scale": s, "family": "preset"}
        yield c


def finding_key(case, verdict):
    return None
