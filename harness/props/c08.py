"""C08 — BioConsert returns a local optimum of the Kemeny score."""
import lib
import common
import biocommon

ID = "C08"
ANCHORS = ["corankco/algorithms/bioconsert/bioconsert.py", "corankco/algorithms/bioconsert/bioco.py"]
RULE = ("kinds: delta (random dense vector x element on a real cost table: the cumulative delta of every reachable "
        "target read from the change/add arrays, both search results, the vectors after _change_bucket/_add_bucket), "
        "improve (final vector and delta of _improve_one_ranking), run (full BioConsert / BioCo / starters, all consensus "
        "rankings); non-trivial = vector with >= 2 multi-element buckets and >= 1 accepted move, or run on an incomplete "
        "dataset with >= 3 elements; distinct by JSON")
TRUSTED = common.TRUSTED_BASE + ["hand translation of bioconsert.py:28-447 (tied by this run, numba kernels called directly)",
                                 "threshold 0.001 on the dyadic grid == strict negativity of the scaled integer delta"]
ASSUMPTIONS = ["dyadic penalties: `x < -0.001` is `k < -floor(scale/1000)` on the scaled integer grid (scales up to 4096)"]
FUEL = 10000


def budget(tier):
    return 4000 if tier == "quick" else 40000


def dense_vec(rng, n):
    k = rng.randint(1, n)
    v = [rng.randrange(k) for _ in range(n)]
    used = sorted(set(v))
    return [used.index(x) for x in v]


def gen(rng, index, tier):
    kind = rng.choice(["delta", "delta", "improve", "run", "run"])
    nmax = 7 if tier == "quick" else 10
    raw, meta = lib.gen_dataset(rng, nmax=nmax, mmax=5, nmin=2 if kind != "run" else 1, big=0.02)
    n = len(lib.dataset_elems(raw))
    sch = lib.gen_scheme(rng, family=rng.choice(["preset", "grid", "grid", "preset_mult", "zeroheavy", "fine", "fine", "cheap_ties", "large", "large"]))
    case = {"kind": kind, "dataset": raw, "scheme": sch, "meta": meta}
    if kind in ("delta", "improve"):
        case["r"] = dense_vec(rng, n)
        case["x"] = rng.randrange(n)
    else:
        case["config"] = rng.choice(biocommon.STARTER_CONFIGS)
        case["amo"] = rng.random() < 0.4
        if rng.random() < 0.1 and not meta.get("big"):
            # penalties not exactly representable in binary: the float bookkeeping drifts by a few ulps (far below the
            # 0.001 threshold, far below 1/scale): only the predicate (local optimality of what is returned, evaluated
            # exactly) is checked, not the model's run, whose tie-breaks the drift may change
            case["scheme"] = lib.gen_scheme(rng, family="decimal")
    return case


def _cum_change(change, b, max_id):
    """meaning of the change array: cumulative delta of joining each existing bucket j != b"""
    res = {}
    acc = 0
    for j in range(b + 1, max_id + 1):
        acc += change[j]
        res[j] = acc
    acc = 0
    for j in range(b - 1, -1, -1):
        acc += change[j]
        res[j] = acc
    return [res[j] for j in sorted(res)]


def _cum_add(add, b, max_id):
    res = {}
    acc = 0
    for p in range(b + 1, max_id + 2):
        acc += add[p]
        res[p] = acc
    acc = 0
    for p in range(b, -1, -1):
        acc += add[p]
        res[p] = acc
    return [res[p] for p in sorted(res)]


def impl(case):
    import numpy as np
    from corankco.algorithms.pairwisebasedalgorithm import PairwiseBasedAlgorithm
    try:
        if case["kind"] == "run":
            return biocommon.run_bio(case)
        import corankco.algorithms.bioconsert.bioconsert as bc
        ds, sch, coder, obs, s = common.prep(case)
        tbl = PairwiseBasedAlgorithm.pairwise_cost_matrix(ds.get_positions(), sch)
        tree = biocommon.table_tree(tbl, s)
        m1 = tbl.flatten()
        n = ds.nb_elements
        r = np.array(case["r"], dtype=np.int32)
        out = {"table": tree}
        if case["kind"] == "improve":
            fn = getattr(bc, "_improve_one_ranking", None)
            if fn is None:
                return {"unavailable": True}
            d = fn(r, m1, n)
            out["r"] = [int(v) for v in r]
            out["delta"] = lib.to_int(d, s)
            return out
        need = ["_compute_delta_costs", "_search_to_change_bucket", "_search_to_add_bucket", "_change_bucket", "_add_bucket"]
        if any(getattr(bc, f, None) is None for f in need):
            return {"unavailable": True}
        x = case["x"]
        b = int(r[x])
        max_id = int(r.max())
        change = np.zeros(n + 2, dtype=np.float64)
        add = np.zeros(n + 3, dtype=np.float64)
        alone = int(bc._compute_delta_costs(r, x, m1, b, change, add, n))
        ci = [lib.to_int(v, s) for v in change]
        ai = [lib.to_int(v, s) for v in add]
        out["alone"] = alone
        out["change_raw"] = ci
        out["add_raw"] = ai
        c2 = change.copy()
        to_c = int(bc._search_to_change_bucket(b, c2, max_id))
        a2 = add.copy()
        to_a = int(bc._search_to_add_bucket(b, a2, max_id))
        out["to_change"] = [to_c, lib.to_int(c2[to_c], s) if to_c >= 0 else 0]
        out["to_add"] = [to_a, lib.to_int(a2[to_a], s) if to_a >= 0 else 0]
        # moves on every target
        moves = []
        for j in range(max_id + 1):
            if j != b:
                rr = r.copy()
                bc._change_bucket(rr, n, x, b, j, alone)
                moves.append([0, j, [int(v) for v in rr]])
        for p in range(max_id + 2):
            rr = r.copy()
            bc._add_bucket(rr, n, x, b, p, alone)
            moves.append([1, p, [int(v) for v in rr]])
        out["moves"] = moves
        return out
    except Exception as exc:  # noqa: BLE001
        return {"err": "other:" + type(exc).__name__ + ":" + str(exc)[:200]}


def ops(case, out):
    if "err" in out or out.get("unavailable"):
        return []
    S = lib.scheme_tree(case["scheme"])
    if case["kind"] == "run":
        if "rankings" not in out:
            return []
        if case["scheme"]["family"] == "decimal":
            return [("c08.holds", [S, [out["obs"], [lib.tau(case["scheme"]), out["rankings"]]]])]
        res = [("bio.run", [S, [out["obs"], [out["starters_cons"], [int(case["amo"]), [lib.tau(case["scheme"]), FUEL]]]]])]
        res.append(("c08.holds", [S, [out["obs"], [lib.tau(case["scheme"]), out["rankings"]]]]))
        return res
    if not biocommon.table_is_int(out["table"]):
        return []
    t = out["table"]
    if case["kind"] == "improve":
        return [("bio.improve", [t, [lib.tau(case["scheme"]), [FUEL, case["r"]]]])]
    r = case["r"]
    x = case["x"]
    b = r[x]
    res = [("bio.delta", [t, [r, x]])]
    if all(isinstance(v, int) for v in out["change_raw"] + out["add_raw"]):
        res.append(("bio.search", [lib.tau(case["scheme"]), [b, [out["change_raw"], [out["add_raw"], max(r)]]]]))
    for kind, tgt, _ in out["moves"]:
        res.append(("bio.move", [kind, [r, [x, [b, [tgt, out["alone"]]]]]]))
    return res


def judge(case, out, answers):
    kind = case["kind"]
    tags = ["kind:" + kind] + common.base_tags(case)
    if "err" in out:
        return {"agree": False, "holds": False, "diff": out["err"], "nontrivial": False, "tags": tags + ["impl-error"]}
    if out.get("unavailable"):
        return {"agree": True, "holds": None, "diff": "", "nontrivial": False, "tags": tags + ["internal_tie:unavailable"]}
    diff = []
    holds = True
    nontrivial = False
    if kind == "run":
        tags.append("config:" + case["config"])
        if "rankings" not in out:
            err = (out.get("run_err") or "").split(":")[0]
            if out.get("starter_err") and err == out["starter_err"] and err in biocommon.REFUSALS:
                # a starting algorithm refuses the (incomplete dataset, scheme) pair: nothing is returned (see C14)
                return {"agree": True, "holds": True, "diff": "", "nontrivial": False, "tags": tags + ["refused-by-starter"]}
            return {"agree": False, "holds": False, "diff": "run failed: %s" % out.get("run_err"),
                    "nontrivial": False, "tags": tags + ["run-error"]}
        if case["scheme"]["family"] == "decimal":
            return {"agree": True, "holds": bool(answers[0]), "nontrivial": True, "tags": tags + ["predicate-only"],
                    "diff": "" if answers[0] else "a returned ranking is not a local optimum: %s" % out["rankings"]}
        mr, ms, mres, mdeps = answers[0]
        if common.canon_list(mr) != common.canon_list(out["rankings"]):
            diff.append("consensus: model %s impl %s" % (common.canon_list(mr), common.canon_list(out["rankings"])))
        if any(not ok for _, _, ok in mres):
            diff.append("model ran out of fuel")
        holds = bool(answers[1])
        raw = case["dataset"]
        n = len(lib.dataset_elems(raw))
        nontrivial = n >= 3 and any(sum(len(b) for b in r) < n for r in raw)
    elif kind == "improve":
        mr, md, ok, locopt = answers[0]
        if mr != out["r"] or md != out["delta"]:
            diff.append("improve: model (%s, %s) impl (%s, %s)" % (mr, md, out["r"], out["delta"]))
        if not ok:
            diff.append("model ran out of fuel")
        holds = True  # local optimality of the implementation's vector is evaluated by the 'run' kind
        nontrivial = out["r"] != case["r"] and sum(1 for b in set(case["r"]) if case["r"].count(b) > 1) >= 2
        if out["r"] != case["r"]:
            tags.append("moved")
    else:
        r = case["r"]
        b = r[case["x"]]
        mx = max(r)
        mc, ma, malone = answers[0]
        if bool(malone) != bool(out["alone"]):
            diff.append("alone: model %s impl %s" % (malone, out["alone"]))
        ok_raw = all(isinstance(v, int) for v in out["change_raw"] + out["add_raw"])
        if not ok_raw:
            diff.append("non-exact delta arrays")
        else:
            if _cum_change(mc, b, mx) != _cum_change(out["change_raw"], b, mx):
                diff.append("change deltas: model %s impl %s" % (_cum_change(mc, b, mx), _cum_change(out["change_raw"], b, mx)))
            if _cum_add(ma, b, mx) != _cum_add(out["add_raw"], b, mx):
                diff.append("add deltas: model %s impl %s" % (_cum_add(ma, b, mx), _cum_add(out["add_raw"], b, mx)))
            tc, cc, ta, aa = answers[1]
            m_to_c = [tc, cc[tc] if tc >= 0 else 0]
            m_to_a = [ta, aa[ta] if ta >= 0 else 0]
            if m_to_c != out["to_change"] or m_to_a != out["to_add"]:
                diff.append("searches: model %s %s impl %s %s" % (m_to_c, m_to_a, out["to_change"], out["to_add"]))
            if tc >= 0 or ta >= 0:
                tags.append("search:found")
        base = 2 if ok_raw else 1
        for (kd, tgt, vec), ans in zip(out["moves"], answers[base:]):
            if ans != vec:
                diff.append("move %d to %d: model %s impl %s" % (kd, tgt, ans, vec))
        # the moved vectors must stay dense
        for kd, tgt, vec in out["moves"]:
            if sorted(set(vec)) != list(range(len(set(vec)))):
                holds = False
                diff.append("move %d to %d breaks dense numbering: %s" % (kd, tgt, vec))
        nontrivial = sum(1 for bb in set(r) if r.count(bb) > 1) >= 2
    return {"agree": not diff, "holds": holds, "diff": "; ".join(diff)[:3000], "nontrivial": nontrivial, "tags": tags}


def shrink(case):
    if case["kind"] == "run":
        return common.shrink_dataset_case(case)
    return []
