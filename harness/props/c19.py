"""C19 — scoring schemes: validation (which exception), scaling, homogeneity of the score, equivalence, nickname."""
import copy
import lib

ID = "C19"
ANCHORS = ["corankco/scoringscheme.py"]
RULE = ("four case kinds: new (valid grid tuples in int/float/bool representation + malformed shapes/types/"
        "negative/constraint-breaking mutations, several at once), mul (valid scheme x dyadic, zero, negative, "
        "non-number multipliers), equiv (multiples, one-entry near-misses, proportional on B only / T only / first "
        "three entries only, presets), homog (score under k*S vs k*score); non-trivial = malformed or near-miss or "
        "non-preset; distinct by JSON")
TRUSTED = ["Lean 4 kernel", "axioms: propext, Classical.choice, Quot.sound (audited per theorem)",
           "hand translation of scoringscheme.py (constructor, __mul__, __is_equivalent_to_generic, get_nickname)",
           "harness encoding / Lean driver parser", "float64 exact on the dyadic penalty grid; NaN / inf are separate constructors of the model's Python values (refused as non real)"]
ASSUMPTIONS = ["penalties and multipliers are dyadic rationals (float division of equal ratios is exact enough: "
               "equal rationals give equal floats; distinct small-grid ratios give distinct floats)"]

T_LIST, T_INT, T_FLOAT, T_BOOL, T_NONE, T_STR, T_OTHER, T_NAN, T_INF = range(9)


def budget(tier):
    return 20000 if tier == "quick" else 200000


def _num(rng, v, scale):
    """represent the scaled value v (meaning v/scale) as a PyVal tree"""
    if v % scale == 0 and rng.random() < 0.5:
        iv = v // scale
        if iv in (0, 1) and rng.random() < 0.1:
            return [T_BOOL, iv]
        return [T_INT, iv]
    return [T_FLOAT, v]


def gen(rng, index, tier):
    kind = rng.choice(["new", "new", "mul", "equiv", "equiv", "homog"])
    sch = lib.gen_scheme(rng, family=rng.choice(["preset", "preset_mult", "grid", "grid", "zeroheavy"]))
    scale = sch["scale"]
    if kind == "new":
        b = list(sch["b"])
        t = list(sch["t"])
        muts = []
        nm = rng.choice([0, 0, 1, 1, 1, 2, 3])
        tree_b = None
        for _ in range(nm):
            m = rng.choice(["b0", "b1", "b34", "t01", "t2", "t34", "neg", "type", "len", "outer", "inner", "b5", "t5"])
            muts.append(m)
            if m == "b0":
                b[0] = rng.choice([1, scale, 3])
            elif m == "b1":
                b[1] = 0
            elif m == "b34":
                b[3] = b[4] + rng.choice([1, scale])
            elif m == "t01":
                t[rng.choice([0, 1])] += rng.choice([1, scale])
            elif m == "t2":
                t[2] = rng.choice([1, scale])
            elif m == "t34":
                t[rng.choice([3, 4])] += rng.choice([1, scale])
            elif m == "b5":
                b[5] = rng.choice([0, 1, 7])
            elif m == "t5":
                t[5] = rng.choice([0, 1, 7])
        pb = [_num(rng, v, scale) for v in b]
        pt = [_num(rng, v, scale) for v in t]
        for m in muts:
            vec = rng.choice([pb, pt])
            if m == "neg" and vec:
                i = rng.randrange(len(vec))
                vec[i] = rng.choice([[T_INT, -1], [T_FLOAT, -1], [T_FLOAT, -scale * 3]])
            elif m == "type" and vec:
                i = rng.randrange(len(vec))
                vec[i] = rng.choice([[T_NONE], [T_STR], [T_BOOL, 1], [T_BOOL, 0], [T_LIST, []], [T_OTHER], [T_NAN], [T_NAN],
                                     [T_INF]])
                if vec[i][0] in (T_NAN, T_INF) and rng.random() < 0.5 and len(vec) == 6:
                    # put it where a comparison with NaN would let it through: B[0] > 0, B[1] == 0, T[2] > 0
                    special = vec[i]
                    vec[i] = [T_FLOAT, 0] if i in (0, 2) else [T_FLOAT, scale]
                    j = rng.choice([0, 1]) if vec is pb else 2
                    vec[j] = special
            elif m == "len":
                if rng.random() < 0.5 and vec:
                    vec.pop(rng.randrange(len(vec)))
                else:
                    vec.insert(rng.randrange(len(vec) + 1), _num(rng, rng.choice([0, scale]), scale))
        tree = [T_LIST, [[T_LIST, pb], [T_LIST, pt]]]
        for m in muts:
            if m == "outer":
                tree = rng.choice([[T_OTHER], [T_NONE], [T_INT, 3], [T_LIST, [[T_LIST, pb]]],
                                   [T_LIST, [[T_LIST, pb], [T_LIST, pt], [T_LIST, pt]]], [T_LIST, []], [T_STR]])
            elif m == "inner":
                which = rng.choice([0, 1])
                if tree[0] == T_LIST and len(tree[1]) == 2:
                    tree[1][which] = rng.choice([[T_OTHER], [T_NONE], [T_INT, 1], [T_STR]])
        return {"kind": kind, "scale": scale, "tree": tree, "muts": muts}
    if kind == "mul":
        kd = rng.choice([1, 2, 4])
        k = rng.choice([["num", rng.randint(1, 12), kd], ["num", rng.randint(1, 12), kd], ["num", 0, 1],
                        ["num", -rng.randint(1, 5), kd], ["int", rng.randint(1, 5)], ["int", 0], ["int", -2],
                        ["bool", 1], ["none"], ["str"], ["nan"], ["inf"]])
        return {"kind": kind, "scheme": sch, "k": k}
    if kind == "equiv":
        b = list(sch["b"])
        t = list(sch["t"])
        var = rng.choice(["mult", "mult", "one_entry", "b_only", "t_only", "first3", "indep", "presets", "zero_pattern"])
        k1, k2 = rng.randint(1, 5), rng.randint(1, 5)
        if var == "mult":
            b2, t2 = [k1 * x for x in b], [k1 * x for x in t]
        elif var == "one_entry":
            b2, t2 = [k1 * x for x in b], [k1 * x for x in t]
            i = rng.choice([1, 2, 5, 6, 9, 11, 3, 4])  # entries whose change keeps validity (pairs changed together)
            if i in (1, 2, 5):
                b2[i] += rng.choice([1, 2])
            elif i == 3:
                b2[4] += 1
            elif i == 4:
                if b2[3] > 0:
                    b2[3] -= 1
                else:
                    b2[4] += 1
            elif i == 6:
                t2[0] += 1
                t2[1] += 1
            elif i == 9:
                t2[3] += 1
                t2[4] += 1
            else:
                t2[5] += 1
        elif var == "b_only":
            b2, t2 = [k1 * x for x in b], [(k1 + k2) * x for x in t]
        elif var == "t_only":
            b2, t2 = [(k1 + k2) * x for x in b], [k1 * x for x in t]
        elif var == "first3":
            b2 = [k1 * x for x in b[:3]] + [rng.randint(0, 5) for _ in range(3)]
            if b2[3] > b2[4]:
                b2[3], b2[4] = b2[4], b2[3]
            t34 = rng.randint(0, 5)
            t2 = [k1 * x for x in t[:3]] + [t34, t34, rng.randint(0, 5)]
        elif var == "zero_pattern":
            b2, t2 = [k1 * x for x in b], [k1 * x for x in t]
            i = rng.choice([2, 5])
            b2[i] = 0 if b2[i] else 3
        elif var == "presets":
            pb, pt, _ = lib.PRESETS[rng.choice(sorted(lib.PRESETS))]
            b2, t2 = [k1 * x for x in pb], [k1 * x for x in pt]
            if rng.random() < 0.5:
                pb, pt, _ = lib.PRESETS[rng.choice(sorted(lib.PRESETS))]
                b, t = [k2 * x for x in pb], [k2 * x for x in pt]
        else:
            s2 = lib.gen_scheme(rng, family="grid")
            b2, t2 = s2["b"], s2["t"]
        return {"kind": kind, "s1": {"b": b, "t": t}, "s2": {"b": b2, "t": t2}, "scale": scale, "var": var}
    raw, meta = lib.gen_dataset(rng, nmax=5, mmax=4)
    cand, _ = lib.gen_candidate(rng, lib.dataset_elems(raw), "exact")
    return {"kind": "homog", "scheme": sch, "k": [rng.randint(1, 9), rng.choice([1, 2, 4])], "dataset": raw,
            "candidate": cand}


def fixed_cases(tier):
    # the preset schemes of the library vs the constants of the model; D1 replay (DESIGN 7): proportional on B only
    return [{"kind": "presets"}, {"kind": "equiv", "s1": {"b": [0, 1, 1, 0, 1, 1], "t": [1, 1, 0, 1, 1, 0]},
             "s2": {"b": [0, 1, 1, 0, 1, 1], "t": [2, 2, 0, 3, 3, 5]}, "scale": 1, "var": "fixed-D1"}]


def _build(tree, scale):
    tag = tree[0]
    if tag == T_LIST:
        return [_build(x, scale) for x in tree[1]]
    if tag == T_INT:
        return int(tree[1])
    if tag == T_FLOAT:
        return tree[1] / scale
    if tag == T_BOOL:
        return bool(tree[1])
    if tag == T_NONE:
        return None
    if tag == T_STR:
        return "1"
    if tag == T_NAN:
        return float("nan")
    if tag == T_INF:
        return float("inf")
    return (0.0, 1.0)


def _proto(tree):
    tag = tree[0]
    if tag == T_LIST:
        return [0, [_proto(x) for x in tree[1]]]
    if tag in (T_INT, T_FLOAT, T_BOOL):
        return [tag, tree[1]]
    return [tag]


ERR = {"InvalidScoringScheme": 1, "NonRealPositiveValuesScoringScheme": 2,
       "ForbiddenAssociationPenaltiesScoringScheme": 3, "ValueError": 4}


def _res(fn, scale):
    try:
        s = fn()
        return [0, [[lib.to_int(x, scale) for x in s.penalty_vectors[0]],
                    [lib.to_int(x, scale) for x in s.penalty_vectors[1]]]]
    except Exception as exc:  # noqa: BLE001
        name = type(exc).__name__
        return [ERR[name]] if name in ERR else ["other:" + name]


NICK = {"UKSP": 0, "GPDP": 1, "IGKS": 2, "EKS": 3}


def impl(case):
    from corankco.scoringscheme import ScoringScheme
    kind = case["kind"]
    try:
        if kind == "presets":
            ps = [ScoringScheme.get_unifying_scoring_scheme(), ScoringScheme.get_pseudodistance_scoring_scheme(),
                  ScoringScheme.get_induced_measure_scoring_scheme(), ScoringScheme.get_extended_measure_scoring_scheme(),
                  ScoringScheme.get_unifying_scoring_scheme_p(0.5), ScoringScheme.get_induced_measure_scoring_scheme_p(0.5)]
            from corankco.algorithms.parcons.parcons import ParCons
            from corankco.algorithms.exact.exactalgorithmcplex import ExactAlgorithmCplex
            return {"presets": [[[lib.to_int(x, 2) for x in p.penalty_vectors[0]], [lib.to_int(x, 2) for x in p.penalty_vectors[1]]]
                                for p in ps],
                    "nicks": [p.get_nickname() for p in ps[:4]],
                    "constants": [getattr(ParCons, "DEFAULT_BOUND_FOR_EXACT", None),
                                  getattr(ExactAlgorithmCplex, "_PRECISION_THRESHOLD", None)]}
        if kind == "new":
            obj = _build(case["tree"], case["scale"])
            before = copy.deepcopy(obj)
            res = _res(lambda: ScoringScheme(obj), case["scale"])
            return {"res": res, "input_untouched": before == obj}
        if kind == "mul":
            sch = lib.make_scheme(case["scheme"])
            before = copy.deepcopy(sch.penalty_vectors)
            k = case["k"]
            if k[0] == "num":
                kv, kd = k[1] / k[2], k[2]
            elif k[0] == "int":
                kv, kd = int(k[1]), 1
            elif k[0] == "bool":
                kv, kd = True, 1
            elif k[0] == "none":
                kv, kd = None, 1
            elif k[0] in ("nan", "inf"):
                kv, kd = float(k[0]), 1
            else:
                kv, kd = "2", 1
            left = _res(lambda: sch * kv, case["scheme"]["scale"] * kd)
            right = _res(lambda: kv * sch, case["scheme"]["scale"] * kd)
            return {"res": left, "rres": right, "orig_untouched": before == sch.penalty_vectors}
        if kind == "equiv":
            s = case["scale"]
            s1 = ScoringScheme([[x / s for x in case["s1"]["b"]], [x / s for x in case["s1"]["t"]]])
            s2 = ScoringScheme([[x / s for x in case["s2"]["b"]], [x / s for x in case["s2"]["t"]]])
            nick = s1.get_nickname()
            return {"eq": bool(s1.is_equivalent_to(s2)), "eqc": bool(s1.is_equivalent_to_on_complete_rankings_only(s2)),
                    "sym": bool(s2.is_equivalent_to(s1)), "nick": NICK.get(nick, 4),
                    "nick_text_ok": nick in NICK or nick == str(s1)}
        from corankco.kemeny_score_computation import KemenyComputingFactory
        ds = lib.make_dataset(case["dataset"])
        sch = lib.make_scheme(case["scheme"])
        cand = lib.make_ranking(lib.conv_like_dataset(ds, case["candidate"]))
        kn, kd = case["k"]
        s = case["scheme"]["scale"]
        base = KemenyComputingFactory(sch).get_kemeny_score(cand, ds)
        scaled = KemenyComputingFactory(sch * (kn / kd)).get_kemeny_score(cand, ds)
        return {"base": lib.to_int(base, s), "scaled": lib.to_int(scaled, s * kd)}
    except Exception as exc:  # noqa: BLE001
        return {"err": "other:" + type(exc).__name__ + ":" + str(exc)[:200]}


def ops(case, out):
    kind = case["kind"]
    if "err" in out:
        return []
    if kind == "presets":
        return [("c19.presets", [])]
    if kind == "new":
        return [("c19.new", [case["scale"], _proto(case["tree"])])]
    if kind == "mul":
        k = case["k"]
        sch = case["scheme"]
        if k[0] == "num":
            # scheme scaled by s, multiplier kn/kd: result scaled by s*kd has entries kn * entry
            kk = [k[1]]
        elif k[0] == "int":
            kk = [k[1]]
        elif k[0] == "bool":
            kk = [1]
        elif k[0] in ("nan", "inf"):
            return [("c19.mulnf", lib.scheme_tree(sch))]
        else:
            kk = []
        return [("c19.mul", [lib.scheme_tree(sch), kk])]
    if kind == "equiv":
        return [("c19.equiv", [[case["s1"]["b"], case["s1"]["t"]], [case["s2"]["b"], case["s2"]["t"]]])]
    return []


def judge(case, out, answers):
    kind = case["kind"]
    tags = ["kind:" + kind]
    if "err" in out:
        return {"agree": False, "holds": False, "diff": out["err"], "nontrivial": False, "tags": tags + ["impl-error"]}
    diff = []
    holds = True
    nontrivial = True
    if kind == "presets":
        if answers[0] != out["presets"]:
            diff.append("preset schemes: model %s impl %s" % (answers[0], out["presets"]))
        if out["nicks"] != ["UKSP", "GPDP", "IGKS", "EKS"]:
            holds = False
            diff.append("nicknames of the presets: %s" % out["nicks"])
        if [c for c, w in zip(out["constants"], [80, 0.001]) if c is not None and c != w]:
            diff.append("constants (default exact bound, precision threshold) changed: %s" % out["constants"])
    elif kind == "new":
        model, spec = answers[0]
        if model != out["res"]:
            diff.append("constructor: model %s impl %s" % (model, out["res"]))
        if spec != out["res"] or not out["input_untouched"]:
            holds = False
        tags.append("new:" + ("accepted" if out["res"][0] == 0 else "err%s" % out["res"][0]))
        for m in case["muts"]:
            tags.append("mut:" + m)
        nontrivial = bool(case["muts"])
    elif kind == "mul":
        model = answers[0]
        if model != out["res"] or model != out["rres"]:
            diff.append("mul: model %s impl %s / %s" % (model, out["res"], out["rres"]))
        k = case["k"]
        positive = (k[0] in ("num", "int") and k[1] > 0) or k[0] == "bool"
        if positive:
            sch = case["scheme"]
            kn = k[1] if k[0] != "bool" else 1
            want = [0, [[kn * x for x in sch["b"]], [kn * x for x in sch["t"]]]]
            if out["res"] != want or out["rres"] != want:
                holds = False
        if not out["orig_untouched"]:
            holds = False
        tags.append("mul:" + k[0] + (":pos" if positive else ":nonpos"))
    elif kind == "equiv":
        meq, meqc, seq, seqc, nick = answers[0]
        if [bool(meq), bool(meqc), nick] != [out["eq"], out["eqc"], out["nick"]]:
            diff.append("equiv: model %s impl %s" % ([meq, meqc, nick], [out["eq"], out["eqc"], out["nick"]]))
        if bool(seq) != out["eq"] or bool(seqc) != out["eqc"] or out["sym"] != out["eq"] or not out["nick_text_ok"]:
            holds = False
        tags.append("equiv:" + case["var"] + (":eq" if out["eq"] else ":ne"))
        nontrivial = case["var"] not in ("indep",)
    else:
        kn, kd = case["k"]
        if not isinstance(out["base"], int) or out["scaled"] != kn * out["base"]:
            holds = False
            diff.append("homogeneity: base %s scaled %s k %s/%s" % (out["base"], out["scaled"], kn, kd))
    return {"agree": not diff, "holds": holds, "diff": "; ".join(diff), "nontrivial": nontrivial, "tags": tags}
