"""C15 — computing a consensus never modifies its inputs; results are repeatable."""
import copy
import lib
import common
import algos
import dscommon
import biocommon

ID = "C15"
ANCHORS = ["corankco/dataset.py", "corankco/scoringscheme.py", "corankco/consensus.py",
           "corankco/algorithms/bioconsert/bioconsert.py", "corankco/algorithms/borda/borda.py",
           "corankco/algorithms/pickaperm/pickaperm.py"]
RULE = ("histories of <= 12 calls on SHARED Dataset / ScoringScheme objects: run an algorithm configuration (all of C03's), "
        "read consensus.kemeny_score / description(), parcons / parfront partition, unified_rankings / unified_dataset, "
        "sub_problem_from_elements, matrices and accessors (incl. mutating the lists / arrays they return is NOT done: only "
        "the library's own calls are exercised); before and after every call the complete public state (every ranking's "
        "buckets / positions / domain, both id maps, flags, name, both penalty vectors) is snapshotted; every deterministic "
        "call is repeated on FRESH copies and must give the same result; Borda / Copeland / PickAPerm / score outputs are "
        "also compared with the model's outputs for the INITIAL value; non-trivial = history with >= 3 calls incl. >= 2 "
        "algorithm runs on an incomplete dataset; distinct by JSON")
TRUSTED = common.TRUSTED_BASE + ["heap aliasing / in-place mutation is observed by snapshots, not proved (level: partial)"]
ASSUMPTIONS = ["dyadic penalties", "KwikSort made repeatable only for the comparison with fresh copies (pivot = first element)"]


def budget(tier):
    return 700 if tier == "quick" else 7000


def gen(rng, index, tier):
    raw, meta = lib.gen_dataset(rng, nmax=6, mmax=4)
    elems = lib.dataset_elems(raw)
    sch = common.family_scheme(rng, rng.choice(["unifying", "unifying", "induced", "unifying_half", "grid", "pseudo"]))
    ops = []
    for _ in range(rng.randint(1, 12)):
        k = rng.choice(["run", "run", "run", "score", "partition", "derived", "accessors", "description"])
        if k == "run":
            cfg = list(rng.choice(algos.TEN))
            ops.append(["run", cfg, rng.random() < 0.5 or (cfg[0] == "exact" and cfg[1] == 1)])
        elif k == "score":
            cand, _ = lib.gen_candidate(rng, elems, "exact")
            ops.append(["score", cand])
        elif k == "partition":
            ops.append(["partition", rng.choice(["parcons", "parfront"])])
        elif k == "derived":
            ops.append(["derived", rng.choice(["unified_rankings", "unified_dataset", "sub_problem"]),
                        [e for e in elems if rng.random() < 0.6] or elems[:1]])
        elif k == "accessors":
            ops.append(["accessors"])
        else:
            ops.append(["description"])
    return {"dataset": raw, "scheme": sch, "ops": ops, "meta": meta}


def _state(ds, sch):
    return [dscommon.canon_snapshot(dscommon.snapshot(ds)), ds.name, copy.deepcopy(sch.penalty_vectors),
            copy.deepcopy(sch.b_vector), copy.deepcopy(sch.t_vector)]


def _do(op, ds, sch, coder, scale):
    """perform one call; returns a JSON-able, canonical description of its result"""
    from corankco.kemeny_score_computation import KemenyComputingFactory
    from corankco.partitioning.ordered_partition import OrderedPartition
    kind = op[0]
    try:
        if kind == "run":
            with biocommon.DeterministicChoice():
                cons = algos.make(op[1]).compute_consensus_rankings(ds, sch, op[2])
            res = [common.obs_rankings(cons.consensus_rankings, coder), lib.to_int(cons.kemeny_score, scale)]
            cons.description()
            return res
        if kind == "score":
            cand = lib.make_ranking(lib.conv_like_dataset(ds, op[1]))
            return lib.to_int(KemenyComputingFactory(sch).get_kemeny_score(cand, ds), scale)
        if kind == "partition":
            fn = OrderedPartition.parcons_partition if op[1] == "parcons" else OrderedPartition.parfront_partition
            p = fn(ds, sch)
            return [sorted(coder.code(e.value) for e in g) for g in p.partition]
        if kind == "derived":
            if op[1] == "unified_rankings":
                return common.obs_rankings(ds.unified_rankings(), coder)
            if op[1] == "unified_dataset":
                return common.obs_rankings(ds.unified_dataset().rankings, coder)
            keep = set(lib.conv_like_dataset(ds, [op[2]])[0])
            return common.obs_rankings(ds.sub_problem_from_elements(keep).rankings, coder)
        if kind == "accessors":
            return [ds.get_positions().tolist(), ds.get_bucket_ids().tolist(), ds.nb_elements, ds.nb_rankings,
                    bool(ds.is_complete), bool(ds.without_ties), sorted(coder.code(e.value) for e in ds.universe),
                    len(str(ds)), len(ds.description()), sch.get_nickname(), len(sch.description())]
        ds.description()
        sch.description()
        return "ok"
    except Exception as exc:  # noqa: BLE001
        return "exc:" + type(exc).__name__


def impl(case):
    try:
        ds, sch, coder, obs, s = common.prep(case)
        ds.name = "shared"
        init = _state(ds, sch)
        steps = []
        for op in case["ops"]:
            before = _state(ds, sch)
            res = _do(op, ds, sch, coder, s)
            after = _state(ds, sch)
            # the same call on fresh copies built from the raw inputs
            ds2, sch2, _, _, _ = common.prep(case)
            ds2.name = "shared"
            fresh = _do(op, ds2, sch2, coder, s)
            again = _do(op, ds, sch, coder, s) if op[0] in ("run", "score", "partition") else res
            steps.append({"res": res, "fresh": fresh, "again": again, "unchanged": before == after,
                          "changed_what": None if before == after else [i for i in range(len(before)) if before[i] != after[i]]})
        final = _state(ds, sch)
        return {"obs": obs, "steps": steps, "state_unchanged": init == final}
    except Exception as exc:  # noqa: BLE001
        return {"err": "other:" + type(exc).__name__ + ":" + str(exc)[:200]}


def _model_op(op, out, case):
    if op[0] == "run":
        cfg = op[1]
        if cfg[0] == "borda":
            return [0, int(cfg[1])]
        if cfg[0] == "copeland":
            return [1]
        if cfg[0] == "pickaperm":
            return [2, int(op[2])]
    return None


def ops(case, out):
    if "err" in out:
        return []
    mops = []
    for op in case["ops"]:
        m = _model_op(op, out, case)
        if m is not None:
            mops.append(m)
    return [("c15.run", [lib.scheme_tree(case["scheme"]), out["obs"], mops])]


def judge(case, out, answers):
    tags = common.base_tags(case)
    if "err" in out:
        return {"agree": False, "holds": False, "diff": out["err"], "nontrivial": False, "tags": tags + ["impl-error"]}
    diff = []
    holds = True
    mouts = list(answers[0])
    for k, (op, st) in enumerate(zip(case["ops"], out["steps"])):
        tags.append("op:" + op[0])
        if not st["unchanged"]:
            holds = False
            diff.append("call %d %s modified its inputs (state components %s)" % (k, op[:2], st["changed_what"]))
        if st["res"] != st["fresh"]:
            holds = False
            diff.append("call %d %s on shared objects gave %s, on fresh copies %s" % (k, op[:2], st["res"], st["fresh"]))
        if st["again"] != st["res"]:
            holds = False
            diff.append("call %d %s repeated: %s then %s" % (k, op[:2], st["res"], st["again"]))
        m = _model_op(op, out, case)
        if m is not None:
            mo = mouts.pop(0)
            if m[0] == 0 or m[0] == 1:
                mr = [lib.canon_ranking(mo[0])] if mo else None
                ir = st["res"][0] if isinstance(st["res"], list) else None
                if mr != ir:
                    diff.append("call %d %s: model %s impl %s" % (k, op[:2], mr, st["res"]))
            else:
                mr = common.canon_list(mo[0][0]) if mo else None
                ir = st["res"][0] if isinstance(st["res"], list) else None
                if mr != ir:
                    diff.append("call %d %s: model %s impl %s" % (k, op[:2], mr, st["res"]))
    if not out["state_unchanged"]:
        holds = False
        diff.append("final state differs from the initial state")
    raw = case["dataset"]
    n = len(lib.dataset_elems(raw))
    runs = sum(1 for op in case["ops"] if op[0] == "run")
    nontrivial = len(case["ops"]) >= 3 and runs >= 2 and any(sum(len(b) for b in r) < n for r in raw)
    return {"agree": not [d for d in diff if ": model " in d], "holds": holds, "diff": "; ".join(diff)[:3000],
            "nontrivial": nontrivial, "tags": sorted(set(tags))}


def shrink(case):
    for i in range(len(case["ops"])):
        c = dict(case)
        c["ops"] = case["ops"][:i] + case["ops"][i + 1:]
        if c["ops"]:
            yield c
