"""C14 — declared scheme applicability is truthful; complete data is never refused."""
import lib
import common
import algos

ID = "C14"
ANCHORS = ["corankco/algorithms/algorithm_choice.py", "corankco/algorithms/rank_aggregation_algorithm.py", "corankco/algorithms/bioconsert/bioconsert.py",
           "corankco/algorithms/borda/borda.py", "corankco/algorithms/pickaperm/pickaperm.py",
           "corankco/algorithms/parcons/parcons.py", "corankco/scoringscheme.py"]
RULE = ("random algorithm configurations up to nesting depth 2 (BioConsert with starters, ParCons with auxiliaries, with "
        "starters / auxiliaries themselves nested; CPLEX-API configurations through the stand-in) x scheme families "
        "(four Borda families and multiples, near-misses, other presets, grid) x one complete and one incomplete dataset; "
        "compared: value of is_scoring_scheme_relevant_when_incomplete_rankings (or the exception it raises) vs the model; "
        "predicate: the question is answered without failing; answered true => the incomplete dataset is accepted with a "
        "well-formed consensus; the complete dataset is always accepted; for Borda / PickAPerm / BioCo / BioConsert started "
        "from them: incomplete refused <=> answered false; one case in five goes through the selector get_algorithm(enum "
        "member, parameters the named class accepts): the configuration read off the returned object, Algorithm.get_all() "
        "and get_all_compatible_with_any_scoring_scheme() are compared with the model's, and a member listed as compatible "
        "with any scheme must (default parameters) answer true and accept the incomplete dataset; non-trivial = nested configuration or near-miss scheme; "
        "distinct by JSON")
TRUSTED = common.TRUSTED_BASE + ["hand translation of the applicability predicates and refusal guards (tied by this run)",
                                 "ILP solver / igraph for the configurations that use them"]
ASSUMPTIONS = ["dyadic penalties", "solver feasible"]


def budget(tier):
    return 1500 if tier == "quick" else 15000


def gen(rng, index, tier):
    standin = rng.random() < 0.25
    config = algos.gen_config(rng, depth=2 if rng.random() < 0.7 else 1, allow_standin=standin)
    if rng.random() < 0.2:
        config = algos.gen_factory(rng)
        standin = False
    if not algos.needs_cplex(config):
        standin = standin and rng.random() < 0.5
    nmax = 5 if algos.uses_solver(config) else 7
    comp, _ = lib.gen_dataset(rng, nmax=nmax, mmax=4, family="complete")
    inc = None
    for _ in range(20):
        inc, meta = lib.gen_dataset(rng, nmax=nmax, mmax=4, family=rng.choice(["uniform", "sparse", "near"]), nmin=2)
        n = len(lib.dataset_elems(inc))
        if any(sum(len(b) for b in r) < n for r in inc):
            break
    sch = common.family_scheme(rng)
    case = {"config": config, "scheme": sch, "complete": comp, "incomplete": inc, "meta": meta}
    if standin:
        case["cplex"] = "standin"
    return case


def fixed_cases(tier):
    uni = {"b": [0, 2, 2, 0, 2, 2], "t": [2, 2, 0, 2, 2, 0], "scale": 2, "family": "unifying"}
    meta = {"family": "fixed", "kind": "int"}
    ind = {"b": [0, 2, 2, 0, 0, 0], "t": [2, 2, 0, 0, 0, 0], "scale": 2, "family": "induced"}
    res = [{"config": ["bioco"], "scheme": uni, "complete": [[[0], [1]]], "incomplete": [[[0], [1]], [[1]]], "meta": meta}]
    # the selector, every enum member with default parameters, under a scheme Borda / PickAPerm do not both accept
    for v in range(8):
        for sch in (uni, ind):
            res.append({"config": ["factory", v, "none", None], "scheme": sch, "complete": [[[0], [1]], [[1], [0]]],
                        "incomplete": [[[0], [1], [2]], [[1], [0]]], "meta": meta})
    return res


def _run(alg, raw, sch, coder_needed=True):
    from corankco.consensus import ConsensusFeature  # noqa: F401
    import biocommon
    ds = lib.make_dataset(raw)
    coder = lib.Coder()
    obs = lib.observe_dataset(ds, coder)
    try:
        with biocommon.DeterministicChoice():
            cons = alg.compute_consensus_rankings(ds, sch, True)
    except Exception as exc:  # noqa: BLE001
        return {"obs": obs, "err": type(exc).__name__}
    return {"obs": obs, "rankings": [lib.observe_ranking(r, coder) for r in cons.consensus_rankings]}


def impl(case):
    try:
        sch = lib.make_scheme(case["scheme"])
        fac = {}
        if case["config"][0] == "factory":
            from corankco.algorithms.algorithm_choice import Algorithm
            fac = {"get_all": [a.value for a in Algorithm.get_all()],
                   "compatible": [a.value for a in Algorithm.get_all_compatible_with_any_scoring_scheme()]}
            try:
                alg = algos.make(case["config"])
            except Exception as exc:  # noqa: BLE001
                fac["factory_err"] = type(exc).__name__ + ":" + str(exc)[:160]
                return {"factory": fac}
            fac["class"] = type(alg).__name__
            fac["built"] = algos.term_of_instance(alg)
        else:
            alg = algos.make(case["config"])
        try:
            rel = bool(alg.is_scoring_scheme_relevant_when_incomplete_rankings(sch))
        except Exception as exc:  # noqa: BLE001
            rel = "err:" + type(exc).__name__
        out = {"relevant": rel, "complete": _run(alg, case["complete"], sch), "incomplete": _run(alg, case["incomplete"], sch)}
        if fac:
            out["factory"] = fac
        return out
    except Exception as exc:  # noqa: BLE001
        return {"err": "other:" + type(exc).__name__ + ":" + str(exc)[:200]}


def ops(case, out):
    if "err" in out:
        return []
    if "factory" in out and "factory_err" in out["factory"]:
        return [("c14.factory", algos.model_term(case["config"]))]
    res = [("c14.relevant", [algos.model_term(case["config"]), lib.scheme_tree(case["scheme"])])]
    for k in ("complete", "incomplete"):
        if "rankings" in out[k]:
            res.append(("c03.holds", [out[k]["obs"], [1, out[k]["rankings"]]]))
    if "factory" in out:
        res.append(("c14.factory", algos.model_term(case["config"])))
    return res


def judge(case, out, answers):
    tags = ["config:" + algos.name(case["config"]).split("(")[0].split("[")[0], "scheme:" + case["scheme"]["family"].split(":")[0],
            "cplex:" + case.get("cplex", "absent")]
    if "err" in out:
        return {"agree": False, "holds": False, "diff": out["err"], "nontrivial": False, "tags": tags + ["impl-error"]}
    diff = []
    holds = True
    fac = out.get("factory")
    if fac is not None:
        tags.append("selector")
        mterm, mcompat, mall, mcomp = answers[-1]
        if fac["get_all"] != mall:
            diff.append("selector get_all: model %s impl %s" % (mall, fac["get_all"]))
        if fac["compatible"] != mcomp:
            diff.append("selector compatible list: model %s impl %s" % (mcomp, fac["compatible"]))
        if "factory_err" in fac:
            return {"agree": False, "holds": False, "nontrivial": True, "tags": tags + ["selector:fails"],
                    "diff": "get_algorithm(%s, %s) fails with %s although the class the member names accepts these parameters"
                            % (algos.FACTORY_NAMES[case["config"][1]], case["config"][2:], fac["factory_err"])}
        if fac["built"] is not None and fac["built"] != mterm:
            diff.append("selector builds: model %s impl %s (%s)" % (mterm, fac["built"], fac["class"]))
    mrel, mref_inc, mref_comp, exact_ref = answers[0]
    if out["relevant"] != bool(mrel):
        diff.append("relevant: model %s impl %s" % (bool(mrel), out["relevant"]))
    if not isinstance(out["relevant"], bool):
        holds = False
        diff.append("the applicability question failed with %s" % out["relevant"])
    k = 1
    wf = {}
    for name in ("complete", "incomplete"):
        if "rankings" in out[name]:
            wf[name] = bool(answers[k])
            k += 1
    comp, inc = out["complete"], out["incomplete"]
    if "err" in comp:
        holds = False
        diff.append("complete dataset refused / failed: %s" % comp["err"])
    elif not wf["complete"]:
        holds = False
        diff.append("ill-formed consensus on the complete dataset")
    if "err" in inc:
        if inc["err"] not in algos.REFUSALS:
            holds = False
            diff.append("incomplete dataset: unexpected failure %s" % inc["err"])
        elif out["relevant"] is True:
            holds = False
            diff.append("declared relevant but the incomplete dataset is refused (%s)" % inc["err"])
        tags.append("incomplete:refused")
    else:
        if not wf["incomplete"]:
            holds = False
            diff.append("ill-formed consensus on the incomplete dataset")
        if exact_ref and out["relevant"] is False:
            holds = False
            diff.append("declared not relevant but the incomplete dataset is accepted")
        tags.append("incomplete:accepted")
    if fac is not None and case["config"][1] in fac["compatible"] and case["config"][2] in ("none", "empty"):
        # the library's own declaration "compatible with any scoring scheme" must be truthful
        if out["relevant"] is not True:
            holds = False
            diff.append("%s is listed by get_all_compatible_with_any_scoring_scheme() but get_algorithm gives a %s that declares "
                        "this scheme not relevant" % (algos.FACTORY_NAMES[case["config"][1]], fac["class"]))
        if "err" in inc:
            holds = False
            diff.append("%s is listed as compatible with any scoring scheme but refuses / fails on the incomplete dataset: %s"
                        % (algos.FACTORY_NAMES[case["config"][1]], inc["err"]))
    # model's refusal guard vs implementation (upper bound for ParCons)
    if bool(mref_comp):
        diff.append("model predicts a refusal on complete data")
    if exact_ref and ("err" in inc) != bool(mref_inc):
        diff.append("refusal on incomplete data: model %s impl %s" % (bool(mref_inc), inc.get("err")))
    tags.append("relevant:%s" % out["relevant"])
    nested = case["config"][0] in ("bioconsert", "parcons", "factory")
    nontrivial = nested or case["scheme"]["family"].startswith("near")
    if nested:
        tags.append("nested")
    return {"agree": not diff or holds is False and not [d for d in diff if d.startswith("relevant: model") or d.startswith("refusal on") or d.startswith("model predicts") or d.startswith("selector")],
            "holds": holds, "diff": "; ".join(diff)[:2000], "nontrivial": nontrivial, "tags": tags}


def shrink(case):
    return []
