"""C01 — Kemeny score equals the pairwise-penalty definition; incomplete candidates are refused."""
import lib

ID = "C01"
ANCHORS = ["corankco/kemeny_score_computation.py", "corankco/scoringscheme.py"]
RULE = ("seeded datasets (all families incl. empty rankings, 1-element universes) x valid schemes (presets, "
        "multiples, dyadic grid, fingerprint, zero-heavy) x candidate (exact universe / superset / one element "
        "missing); compared: refusal vs value, score, per-ranking count vectors (s_1, s_2); non-trivial = >=2 rankings, "
        ">=1 tie and >=1 unranked element in the dataset, candidate with >=1 tie, non-preset scheme; distinct by JSON")
TRUSTED = ["Lean 4 kernel", "axioms: propext, Classical.choice, Quot.sound (audited per theorem)",
           "hand translation of kemeny_score_computation.py:39-277 (tied by this run, incl. internal count vectors)",
           "harness encoding / Lean driver parser", "float64 exact on the dyadic penalty grid"]
ASSUMPTIONS = ["penalties are dyadic rationals: float arithmetic of the implementation is exact on them"]


def budget(tier):
    return 12000 if tier == "quick" else 120000


def gen(rng, index, tier):
    nmax = 7 if tier == "quick" else 11
    raw, meta = lib.gen_dataset(rng, nmax=nmax, mmax=5 if tier == "quick" else 7, big=0.03, big_nmax=130)
    if tier == "thorough" and rng.random() < 0.0001:
        # a handful of instances of several hundred elements (thresholds such as 256 in a "fast path")
        raw, meta = lib.gen_dataset(rng, n_exact=rng.choice([260, 300]), mmax=6)
    elems = lib.dataset_elems(raw)
    n = len(elems) + 2
    sch = lib.gen_scheme(rng, max_pairs=len(raw) * n * (n - 1) // 2 + 1)
    cand, mode = lib.gen_candidate(rng, elems)
    meta["cand_mode"] = mode
    case = {"dataset": raw, "scheme": sch, "candidate": cand, "meta": meta}
    if rng.random() < 0.12:
        import common
        case["past"] = common.gen_past(rng, raw)
    return case


def fixed_cases(tier):
    cases = []
    uni = {"b": [0, 2, 2, 0, 2, 2], "t": [2, 2, 0, 2, 2, 0], "scale": 2, "family": "preset"}
    cases.append({"dataset": [[[1]]], "scheme": uni, "candidate": [[1]], "meta": {"family": "fixed", "kind": "int", "cand_mode": "exact"}})
    cases.append({"dataset": [[[1], [2, 3]], []], "scheme": uni, "candidate": [[3, 1], [2], [7]], "meta": {"family": "fixed", "kind": "int", "cand_mode": "superset"}})
    cases.append({"dataset": [[[1], [2, 3]]], "scheme": uni, "candidate": [], "meta": {"family": "fixed", "kind": "int", "cand_mode": "missing"}})
    if tier == "thorough":
        # EXHAUSTIVE small scope: every dataset of <= 2 rankings over <= 3 elements x every candidate over the universe,
        # over the universe plus one foreign element (superset), and every candidate missing one element (refused)
        from props import c02
        rks = lib.all_rankings_over_subsets([0, 1, 2])
        for i, r1 in enumerate(rks):
            for r2 in [None] + rks[i:]:
                raw = [r1] if r2 is None else [r1, r2]
                elems = lib.dataset_elems(raw)
                if not elems:
                    continue
                cands = [(c, "exact") for c in lib.weak_orders(elems)]
                cands += [(c, "superset") for c in lib.weak_orders(elems + [9])[:20]]
                cands += [(c, "missing") for c in lib.weak_orders(elems[1:])[:3]]
                for cand, mode in cands:
                    for sch in c02.SMALL_SCHEMES[:2]:
                        cases.append({"dataset": raw, "scheme": sch, "candidate": cand,
                                      "meta": {"family": "exhaustive-small", "kind": "int", "cand_mode": mode}})
    # sizes at which 32-bit counters overflow (products of bucket sizes >= 2^31): 3 000 elements always, 100 000 in the
    # thorough tier (the Lean model needs ~4 minutes there); every penalty that weighs missing elements is non-zero
    heavy = {"b": [0, 2, 2, 1, 2, 3], "t": [2, 2, 0, 1, 1, 5], "scale": 2, "family": "grid"}
    for n in ([3000, 100000] if tier == "thorough" else [3000]):
        cases.append({"huge": n, "dataset": [], "candidate": [], "scheme": heavy,
                      "meta": {"family": "huge", "kind": "int", "cand_mode": "exact"}})
    return cases


def _expand(case):
    """a `huge` case is stored compactly: N elements, candidate = two buckets of N/2, rankings that rank two elements"""
    if not case.get("huge"):
        return case
    n = case["huge"]
    half = n // 2
    c = dict(case)
    c["dataset"] = [[[0], [half]], [[half + 1, 1]]]
    c["candidate"] = [list(range(half)), list(range(half, n))]
    return c


def impl(case):
    from corankco.kemeny_score_computation import KemenyComputingFactory, InvalidRankingsForComputingDistance
    coder = lib.Coder()
    case = _expand(case)
    try:
        ds = lib.make_dataset(case["dataset"])
        sch = lib.make_scheme(case["scheme"])
        s = case["scheme"]["scale"]
        obs = lib.observe_dataset(ds, coder)
        cand_r = lib.make_ranking(lib.conv_like_dataset(ds, case["candidate"]))
        cand = lib.observe_ranking(cand_r, coder)
        res = {"obs": obs, "cand": cand}
        kcf = KemenyComputingFactory(sch)
        if case.get("past"):
            # the same factory scores the same candidate object, the dataset object is then modified in place
            import common

            def warm():
                try:
                    kcf.get_kemeny_score(cand_r, ds)
                except InvalidRankingsForComputingDistance:
                    pass
            common.apply_past(ds, sch, case["past"], extra_query=warm)
            res["obs"] = lib.observe_dataset(ds, coder)
        try:
            res["score"] = lib.to_int(kcf.get_kemeny_score(cand_r, ds), s)
        except InvalidRankingsForComputingDistance:
            res["score"] = None
            return res
        # internal observable: per-ranking count vectors, if still reachable
        fn = getattr(KemenyComputingFactory, "_KemenyComputingFactory__cost_by_ranking", None)
        if fn is None:
            res["counts"] = "unavailable"
        else:
            mapping = {}
            for ib, b in enumerate(cand_r):
                for e in b:
                    mapping[e] = ib
            counts = []
            for r in ds:
                s1, s2 = fn(cand_r, mapping, r)
                counts.append([[int(x) for x in s1], [int(x) for x in s2]])
            res["counts"] = counts
        return res
    except Exception as exc:  # noqa: BLE001
        return {"err": "other:" + type(exc).__name__ + ":" + str(exc)[:200]}


def ops(case, out):
    if "err" in out:
        return []
    S = lib.scheme_tree(case["scheme"])
    res = [("c01.model", [S, [out["obs"], out["cand"]]])]
    sc = out["score"]
    if case.get("huge"):
        # the definition itself is out of reach at this size (quadratic in the number of pairs, evaluated naively): the
        # model's score stands for it — that is theorem C01_score
        return res
    if sc is None or isinstance(sc, int):
        res.append(("c01.holds", [S, [out["obs"], [out["cand"], [] if sc is None else [sc]]]]))
    return res


def _meaning(counts):
    """compare the count vectors through their meaning: the eight meaningful counters (DESIGN 2)."""
    return [[s1[1], s1[2], s1[3], s1[4], s1[5], s2[0], s2[3], s2[5]] for s1, s2 in counts]


def judge(case, out, answers):
    if "err" in out:
        return {"agree": False, "holds": False, "diff": out["err"], "nontrivial": False, "tags": ["impl-error"]}
    mscore, mcounts = answers[0]
    mscore = mscore[0] if mscore else None
    diff = []
    if mscore != out["score"]:
        diff.append("score: model %s impl %s" % (mscore, out["score"]))
    tags = ["family:" + case["meta"]["family"], "kind:" + case["meta"]["kind"], "scheme:" + case["scheme"]["family"],
            "cand:" + case["meta"]["cand_mode"], "refused" if out["score"] is None else "scored"]
    if out.get("counts") == "unavailable":
        tags.append("internal_tie:unavailable")
    elif out["score"] is not None and "counts" in out:
        mc = [[c[0], c[1]] for c in mcounts]
        if _meaning(mc) != _meaning(out["counts"]):
            diff.append("count vectors differ: model %s impl %s" % (mc, out["counts"]))
    holds = bool(answers[1]) if len(answers) > 1 else False
    if case.get("huge"):
        holds = mscore is not None and mscore == out["score"]
        tags.append("size:huge")
        case = _expand(case)
    raw = case["dataset"]
    n = len(lib.dataset_elems(raw))
    nontrivial = (len(raw) >= 2 and any(len(b) > 1 for r in raw for b in r)
                  and any(sum(len(b) for b in r) < n for r in raw)
                  and any(len(b) > 1 for b in case["candidate"])
                  and case["scheme"]["family"] not in ("preset",))
    if any(len(r) == 0 for r in raw):
        tags.append("has-empty-ranking")
    if n == 1:
        tags.append("one-element")
    if case.get("past"):
        tags.append("dataset-with-a-past")
    if case["meta"].get("big"):
        tags.append("size:big")
    return {"agree": not diff, "holds": holds, "diff": "; ".join(diff), "nontrivial": nontrivial, "tags": tags}


def shrink(case):
    raw = case["dataset"]
    for i in range(len(raw)):
        if len(raw) > 1:
            c = dict(case)
            c["dataset"] = raw[:i] + raw[i + 1:]
            if any(c["dataset"]):
                yield c
    for e in lib.dataset_elems(raw):
        nd = [[b for b in [[x for x in b if x != e] for b in r] if b] for r in raw]
        if any(nd):
            c = dict(case)
            c["dataset"] = nd
            c["candidate"] = [b for b in [[x for x in b if x != e] for b in case["candidate"]] if b]
            yield c
    if case["scheme"]["family"] != "preset":
        c = dict(case)
        b, t, s = lib.PRESETS["unifying"]
        c["scheme"] = {"b": list(b), "t": list(t), "scale": s, "family": "preset"}
        yield c
