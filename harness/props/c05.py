"""C05 — the exact algorithm returns a global optimum, with or without CPLEX."""
import lib
import common
import partcommon
import exactcommon

ID = "C05"
ANCHORS = ["corankco/algorithms/exact/exactalgorithm.py", "corankco/algorithms/exact/exactalgorithmpulp.py",
           "corankco/algorithms/exact/exactalgorithmcplex.py",
           "corankco/algorithms/exact/exactalgorithmcplexforpaperoptim1.py",
           "corankco/algorithms/pairwisebasedalgorithm.py", "corankco/dataset.py"]
RULE = ("datasets with <= 6 elements (7 thorough; families sparse / blocky / near / uniform so that non-trivial components "
        "arise) x schemes incl. B5 != T5; configurations: CPLEX absent (selector optimize on/off, PuLP model) and CPLEX API "
        "present through the stand-in module (selector on/off, CPLEX model non-optimised one / ALL optima, optimised, "
        "paper-optim1); compared: the ILP rows and objective emitted by the real code vs the model's rows (as sets), the "
        "decoder; predicate: every returned ranking has the Lean exhaustive optimum score, the all-optima set equals the "
        "set of minimisers; non-trivial = graph with >= 2 components of which >= 1 is not trivially tiable; distinct by JSON")
TRUSTED = common.TRUSTED_BASE + ["hand translation of the ILP builders / decoders (tied by this run on rows + objective)",
                                 "CBC returns an optimal feasible point (and, through no-good cuts, all of them)",
                                 "stand-in cplex module: API subset backed by CBC; CPLEX itself is not in the sandbox",
                                 "exhaustive optimum over all weak orders (Lean, n <= 7/8)"]
ASSUMPTIONS = ["dyadic penalties with scale < 1000 (threshold 0.001 == strict positivity)", "solver optimal and feasible"]

CONFIGS_ABSENT = ["selector-opt", "selector-noopt", "pulp"]
CONFIGS_STANDIN = ["selector-opt", "selector-noopt", "cplex-noopt", "cplex-noopt-all", "cplex-opt", "paperoptim1"]


def budget(tier):
    return 700 if tier == "quick" else 3000


def gen(rng, index, tier):
    nmax = 5 if tier == "quick" else 7
    fam = rng.choice(["sparse", "blocky", "cyclic", "cyclic", "near", "uniform", "complete", "dup"])
    raw, meta = lib.gen_dataset(rng, nmax=nmax, mmax=5, family=fam)
    standin = rng.random() < 0.5
    config = rng.choice(CONFIGS_STANDIN if standin else CONFIGS_ABSENT)
    if config == "cplex-noopt-all" and len(lib.dataset_elems(raw)) > (4 if tier == "quick" else 5):
        # all optima through the stand-in = one CBC call per optimum; cycles under cheap-tie schemes have hundreds of them
        raw, meta = lib.gen_dataset(rng, nmax=4 if tier == "quick" else 5, mmax=5, family=fam)
    case = {"dataset": raw, "scheme": partcommon.sparse_scheme(rng, meta["family"]), "meta": meta, "config": config}
    if standin:
        case["cplex"] = "standin"
    return case


def fixed_cases(tier):
    # D11 replay through the real optimised path (DESIGN 7) and a 3-cycle without CPLEX (D2)
    uni = {"b": [0, 2, 2, 0, 2, 2], "t": [2, 2, 0, 2, 2, 0], "scale": 2, "family": "preset"}
    meta = {"family": "fixed", "kind": "int", "n": 5, "m": 4}
    return [
        {"dataset": [[[2, 3], [1]], [[0]], [[2]], [[4], [2], [1]]], "scheme": uni, "meta": meta, "config": "cplex-opt", "cplex": "standin"},
        {"dataset": [[[0], [1], [2]], [[1], [2], [0]], [[2], [0], [1]]], "scheme": uni, "meta": meta, "config": "selector-opt"},
        {"dataset": [[[7]]], "scheme": uni, "meta": meta, "config": "pulp"},
    ]


def impl(case):
    try:
        ds, sch, coder, obs, s = common.prep(case)
        g = partcommon.graph_obs(ds, sch, s)
        out = {"obs": obs, "table": g["table"], "comps": g["comps"]}
        config = case["config"]
        amo = True
        if config == "cplex-noopt-all":
            config, amo = "cplex-noopt", False
        alg = exactcommon.make_exact(config)
        out["full_name"] = alg.get_full_name()
        if lib.CPLEX_MODE == "standin":
            import cplex
            del cplex.PROBLEMS[:]
            out.update(exactcommon.run_alg(alg, ds, sch, amo, coder, s))
            probs = list(cplex.PROBLEMS)
            out["n_problems"] = len(probs)
            if config in ("selector-opt", "cplex-opt"):
                subs = []
                for pr in probs:
                    rows, obj = exactcommon.standin_rows(pr, s)
                    subs.append({"rows": exactcommon.uniq_rows(rows), "objective": obj})
                out["sub_problems"] = subs
                out["univ"] = [coder.code(ds.mapping_id_elem[i].value) for i in range(ds.nb_elements)]
                # the sub-datasets as the code builds them (their id numbering follows the iteration order of the freshly
                # built sets, which is observed, not modelled); names mapped back to the parent's elements
                proj = getattr(ds, "_sub_problem_keeping_all_rankings", None)
                if proj is None:
                    out["sub_obs"] = "unavailable"
                else:
                    by_name = {str(e): e for e in ds.universe}
                    sub_obs = []
                    for comp in g["comps"]:
                        sub = proj({ds.mapping_id_elem[i] for i in comp})
                        sub_obs.append([[[coder.code(by_name[str(e)].value) for e in b] for b in r.buckets] for r in sub.rankings])
                    out["sub_obs"] = sub_obs
            if len(probs) == 1 and config in ("selector-noopt", "cplex-noopt", "paperoptim1"):
                rows, obj = exactcommon.standin_rows(probs[0], s)
                out["rows"] = exactcommon.uniq_rows(rows)
                out["objective"] = obj
                out["backend"] = 1
        else:
            with exactcommon.PulpCapture() as cap:
                out.update(exactcommon.run_alg(alg, ds, sch, amo, coder, s))
                out["n_problems"] = len(cap.problems)
                if len(cap.problems) == 1:
                    rows, obj = cap.rows(cap.problems[0], s)
                    out["rows"] = exactcommon.uniq_rows(rows)
                    out["objective"] = obj
                    out["backend"] = 0
        out["amo"] = amo
        return out
    except Exception as exc:  # noqa: BLE001
        return {"err": "other:" + type(exc).__name__ + ":" + str(exc)[:200]}


def ops(case, out):
    if "err" in out or "rankings_ids" not in out or out["rankings_ids"] is None:
        return []
    t = out["table"]
    res = [("c05.holds", [t, [out["rankings_ids"], int(not out["amo"])]])]
    if "rows" in out:
        active = 1 if case["config"] == "paperoptim1" else 0
        res.append(("ilp.rows", [t, [out["backend"], [out["comps"], [active, 0]]]]))
    if "sub_problems" in out:
        # optimised CPLEX path: one ILP per component that cannot be all tied, on the projected dataset
        res.append(("part.parcons", [t, [out["comps"], 1000]]))
        S = lib.scheme_tree(case["scheme"])
        for k, comp in enumerate(out["comps"]):
            keep = [out["univ"][i] for i in comp]
            if out.get("sub_obs") == "unavailable":
                res.append(("ilp.subrows", [S, [out["obs"], [keep, 1]]]))
            else:
                res.append(("ilp.subrowsobs", [S, [out["obs"], [keep, [out["sub_obs"][k], 1]]]]))
    return res


def judge(case, out, answers):
    tags = common.base_tags(case) + ["config:" + case["config"], "cplex:" + case.get("cplex", "absent")]
    if "err" in out:
        return {"agree": False, "holds": False, "diff": out["err"], "nontrivial": False, "tags": tags + ["impl-error"]}
    if "run_err" in out:
        return {"agree": False, "holds": False, "diff": "exact algorithm failed: " + out["run_err"], "nontrivial": False,
                "tags": tags + ["run-error:" + out["run_err"].split(":")[0]]}
    diff = []
    holds, opt, nopt = answers[0]
    holds = bool(holds)
    if not out["flag"]:
        holds = False
        diff.append("exact result not marked necessarily optimal")
    if "rows" in out:
        mrows, mobj = answers[1]
        mrows = exactcommon.uniq_rows([[sorted(r[0]), r[1], r[2]] for r in mrows])
        irows = out["rows"]
        if mrows != irows:
            extra = [r for r in irows if r not in mrows][:3]
            missing = [r for r in mrows if r not in irows][:3]
            diff.append("ILP rows differ: only in impl %s; only in model %s" % (extra, missing))
        mo = sorted([p for p in mobj if p[1] != 0])
        if mo != out["objective"]:
            diff.append("objective differs: model %s impl %s" % (mo[:6], out["objective"][:6]))
        tags.append("rows-compared")
    if "sub_problems" in out:
        base = 2 if "rows" in out else 1
        mask = answers[base][2]
        hard = [k for k, tied in enumerate(mask) if not tied]
        if len(hard) != len(out["sub_problems"]):
            diff.append("optimised path: %d ILPs solved, %d components cannot be all tied" % (len(out["sub_problems"]), len(hard)))
        else:
            for sp, k in zip(out["sub_problems"], hard):
                mrows, mobj, same = answers[base + 1 + k]
                if out.get("sub_obs") != "unavailable" and not same:
                    diff.append("optimised path: the sub-dataset of component %s is not the projection of the dataset" % out["comps"][k])
                if out.get("sub_obs") == "unavailable":
                    tags.append("internal_tie:unavailable")
                    continue
                mrows = exactcommon.uniq_rows([[sorted(r[0]), r[1], r[2]] for r in mrows])
                if mrows != sp["rows"] or sorted([p for p in mobj if p[1] != 0]) != sp["objective"]:
                    diff.append("optimised path: ILP of component %s differs from the model's sub-problem" % out["comps"][k])
            tags.append("subrows-compared")
    n = len(out["table"])
    comps = out["comps"]
    nontrivial = len(comps) >= 2 and out.get("n_problems", 0) >= 1
    tags.append("problems:%d" % min(out.get("n_problems", 0), 4))
    if not out["amo"]:
        tags.append("all-optima:%d" % min(nopt, 9))
    return {"agree": not diff, "holds": holds, "diff": "; ".join(diff)[:3000], "nontrivial": nontrivial, "tags": tags}


def shrink(case):
    return common.shrink_dataset_case(case)


def finding_key(case, verdict):
    return None
