"""C04 — the Kemeny score a consensus reports is the true score of each returned ranking."""
import lib
import common
import algos
from props import c03

ID = "C04"
ANCHORS = ["corankco/consensus.py", "corankco/algorithms/bioconsert/bioconsert.py",
           "corankco/algorithms/exact/exactalgorithmpulp.py", "corankco/algorithms/pickaperm/pickaperm.py"]
RULE = ("same runs as C03 (all algorithm configurations x datasets x schemes x both return_at_most_one_ranking) + 30% local-"
        "search configurations under schemes whose scores are nearly equal (relatively: penalties ~2^20; absolutely: grids "
        "1/4096 and 1/2^18); observed: "
        "features[KEMENY_SCORE] BEFORE the score property is read (algorithm-supplied value: BioConsert bookkeeping, PuLP "
        "objective, PickAPerm minimum; -1 = not supplied) and the value of .kemeny_score; predicate (Lean): present, "
        "non-negative, equal to the definition's score of EVERY returned ranking; non-trivial = algorithm-supplied score on an "
        "incomplete dataset with >= 3 elements; distinct by JSON")
TRUSTED = common.TRUSTED_BASE + ["the Lean definition of the score (C01 ties the library's routine to it)",
                                 "solver's report of its own objective value (PuLP)"]
ASSUMPTIONS = ["dyadic penalties: scores compared exactly (the property allows 1e-6)"]


def budget(tier):
    return 2500 if tier == "quick" else 25000


LOCAL_SEARCH = [["bioconsert", []], ["bioconsert", []], ["bioconsert", [["kwik"], ["copeland"]]], ["bioco"],
                ["parcons", ["bioconsert", []], 2], ["bioconsert", [["kwik"]]]]


def gen(rng, index, tier):
    case = c03.gen(rng, index, tier)
    if case["scheme"]["family"] == "decimal":
        # this check compares scores exactly: dyadic penalties only
        case["scheme"] = lib.gen_scheme(rng, family=rng.choice(["preset", "grid"]))
    if rng.random() < 0.3:
        # local-search bookkeeping under schemes whose scores are close to each other (relatively: `large`, absolutely:
        # `fine`, `close`): several departures, several local optima with nearly equal scores, all rankings requested
        import copy
        config = copy.deepcopy(rng.choice(LOCAL_SEARCH))
        raw, meta = lib.gen_dataset(rng, nmax=6, mmax=5, family=rng.choice(["uniform", "sparse", "near", "blocky"]))
        if config[0] == "bioco":
            sch = common.family_scheme(rng, rng.choice(["unifying", "unifying_half", "induced"]))
        else:
            sch = lib.gen_scheme(rng, family=rng.choice(["large", "large", "close", "close", "fine"]))
        case = {"dataset": raw, "scheme": sch, "config": config, "amo": rng.random() < 0.4, "meta": meta}
    elif rng.random() < 0.12:
        # PickAPerm's own minimum as reported score: repeated rankings, names containing the delimiters of the textual
        # form (two different rankings may then print alike), all rankings requested two times out of three
        raw, meta = lib.gen_dataset(rng, nmax=5, mmax=6, family=rng.choice(["complete", "dup", "dup"]),
                                    kind=rng.choice(["str_delim", "str_delim", "int"]), nmin=3)
        sch = common.family_scheme(rng, rng.choice(["unifying", "unifying", "induced", "pseudo", "grid"]))
        case = {"dataset": raw, "scheme": sch, "config": ["pickaperm"], "amo": rng.random() < 0.33, "meta": meta}
    return case


fixed_cases = c03.fixed_cases
impl = c03.impl
shrink = c03.shrink


def ops(case, out):
    if "err" in out or "rankings" not in out:
        return []
    S = lib.scheme_tree(case["scheme"])
    res = []
    for key in ("score_before", "score"):
        v = out.get(key)
        if isinstance(v, int) and not (key == "score_before" and v == -case["scheme"]["scale"]):
            res.append(("c04.holds", [S, [out["obs"], [out["rankings"], [v]]]]))
        else:
            res.append(("c04.holds", [S, [out["obs"], [out["rankings"], []]]]))
    return res


def judge(case, out, answers):
    tags = common.base_tags(case) + ["config:" + algos.name(case["config"]), "cplex:" + case.get("cplex", "absent")]
    if "err" in out:
        return {"agree": False, "holds": False, "diff": out["err"], "nontrivial": False, "tags": tags + ["impl-error"]}
    if "run_err" in out:
        err = out["run_err"].split(":")[0]
        if err in algos.REFUSALS:
            return {"agree": True, "holds": True, "diff": "", "nontrivial": False, "tags": tags + ["refused"]}
        return {"agree": False, "holds": False, "diff": "algorithm failed: " + out["run_err"], "nontrivial": False,
                "tags": tags + ["run-error:" + err]}
    diff = []
    scale = case["scheme"]["scale"]
    supplied = out["score_before"] != -scale     # -1.0 scaled: "not computed yet"
    holds = True
    true_scores = answers[1][1]
    if supplied:
        tags.append("score:supplied-by-algorithm")
        if not answers[0][0]:
            holds = False
            diff.append("algorithm-supplied score %s, true scores of the returned rankings %s" % (out["score_before"], true_scores))
    else:
        tags.append("score:on-demand")
    if not answers[1][0]:
        holds = False
        diff.append("kemeny_score %s, true scores of the returned rankings %s" % (out["score"], true_scores))
    raw = case["dataset"]
    n = len(lib.dataset_elems(raw))
    nontrivial = supplied and n >= 3 and any(sum(len(b) for b in r) < n for r in raw)
    return {"agree": True, "holds": holds, "diff": "; ".join(diff), "nontrivial": nontrivial, "tags": tags}
