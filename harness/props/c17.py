"""C17 — Dataset equality means same multiset of rankings, nothing else."""
import lib
import common
import dscommon

ID = "C17"
ANCHORS = ["corankco/dataset.py", "corankco/ranking.py", "corankco/element.py"]
RULE = ("pairs of datasets: identical, rankings permuted, bucket members inserted in another order (incl. members that "
        "collide in CPython's hash table: 0, 8, 16, ...; DIFFERENT ints with EQUAL hashes: -1 / -2, k / k + 2^61 - 1), one element "
        "replaced by its equal-hash twin, different names, duplicated rankings with other multiplicities, one "
        "element moved to another bucket, buckets swapped, one ranking dropped, string names containing spaces; compared: "
        "==, reflexivity, symmetry, agreement with ranking equality; non-trivial = pair differing only by insertion order, by "
        "ranking order or by one multiplicity / one move; distinct by JSON")
TRUSTED = common.TRUSTED_BASE + ["hand translation of Dataset.__eq__ as repaired (multiset of tuples of frozensets)"]
ASSUMPTIONS = ["element names: ints and ASCII strings"]


M61 = 2 ** 61 - 1
HASH_EQUAL = [-1, -2, 0, M61, 7, 7 + M61, -3, -3 - M61, 5, 5 + 2 * M61]
TWIN = {-1: -2, -2: -1, 0: M61, M61: 0, 7: 7 + M61, 7 + M61: 7, -3: -3 - M61, -3 - M61: -3, 5: 5 + 2 * M61, 5 + 2 * M61: 5}


def budget(tier):
    return 12000 if tier == "quick" else 120000


def gen(rng, index, tier):
    n = rng.randint(1, 6)
    kind = rng.choice(["int", "collision", "collision", "str", "str_space", "hash_equal"])
    if kind == "hash_equal":
        # DIFFERENT ints with the SAME Python hash: -1 / -2, and k / k + (2^61 - 1)
        els = rng.sample(HASH_EQUAL, n)
    elif kind == "int":
        els = rng.sample(range(0, 20), n)
    elif kind == "collision":
        els = [8 * i for i in range(n)]
    elif kind == "str":
        els = ["e%d" % i for i in range(n)]
    else:
        els = [rng.choice(["a b", "ab", "a  b", "b a", "ba", "a", "b", " a"][:max(2, n + 2)]) for _ in range(n)]
        els = list(dict.fromkeys(els))
    m = rng.randint(1, 4)
    a = [lib.gen_ranking(rng, els, rng.choice([0.0, 0.4, 0.8]), rng.choice(["complete", "incomplete"])) for _ in range(m)]
    if rng.random() < 0.3:
        a.append([list(b) for b in rng.choice(a)])
    var = rng.choice(["same", "perm_rankings", "twin", "perm_members", "perm_members", "name", "multiplicity", "move", "swap_buckets",
                      "drop", "merge", "independent"])
    b = [[list(x) for x in r] for r in a]
    if var == "perm_rankings":
        rng.shuffle(b)
    elif var == "perm_members":
        b = [[rng.sample(x, len(x)) for x in r] for r in b]
        if rng.random() < 0.5:
            rng.shuffle(b)
    elif var == "twin":
        # one element replaced everywhere by a different element with the same hash (hash_equal names), else by a new name
        flat = sorted({e for r in b for x in r for e in x}, key=str)
        if flat:
            e = rng.choice(flat)
            t = TWIN.get(e, "zz") if kind == "hash_equal" else ("zz" if isinstance(e, str) else 999)
            if t not in flat:
                b = [[[t if y == e else y for y in x] for x in r] for r in b]
    elif var == "multiplicity":
        b.append([list(x) for x in rng.choice(b)])
    elif var == "move":
        r = rng.choice(b)
        flat = [e for x in r for e in x]
        if len(flat) >= 2 and len(r) >= 1:
            e = rng.choice(flat)
            for x in r:
                if e in x:
                    x.remove(e)
            r[:] = [x for x in r if x]
            if r and rng.random() < 0.5:
                rng.choice(r).append(e)
            else:
                r.insert(rng.randint(0, len(r)), [e])
    elif var == "swap_buckets":
        r = rng.choice(b)
        if len(r) >= 2:
            i, j = rng.sample(range(len(r)), 2)
            r[i], r[j] = r[j], r[i]
    elif var == "drop" and len(b) >= 2:
        b.pop(rng.randrange(len(b)))
    elif var == "merge":
        r = rng.choice(b)
        if len(r) >= 2:
            i = rng.randrange(len(r) - 1)
            r[i:i + 2] = [r[i] + r[i + 1]]
    elif var == "independent":
        b = [lib.gen_ranking(rng, els, 0.4, "complete") for _ in range(m)]
    case = {"a": a, "b": b, "var": var, "kind": kind, "name_b": rng.choice(["", "other"])}
    if rng.random() < 0.15:
        import common
        case["past_a"] = common.gen_past(rng, a)
        if rng.random() < 0.5:
            case["past_b"] = common.gen_past(rng, b)
    return case


def fixed_cases(tier):
    return [{"a": [[[0, 8]]], "b": [[[8, 0]]], "var": "fixed-D8-collision", "kind": "collision", "name_b": ""},
            {"a": [[["a b"]]], "b": [[["ab"]]], "var": "fixed-D8-space", "kind": "str_space", "name_b": ""}]


def impl(case):
    from corankco.dataset import Dataset
    from corankco.ranking import Ranking
    try:
        da = Dataset([Ranking([lib.ordered_set(b) for b in r]) for r in case["a"]])
        db = Dataset([Ranking([lib.ordered_set(b) for b in r]) for r in case["b"]], name=case["name_b"])
        if case.get("past_a") or case.get("past_b"):
            # the two objects are compared, then modified in place, then compared again
            import common
            from corankco.scoringscheme import ScoringScheme
            uni = ScoringScheme.get_unifying_scoring_scheme()
            bool(da == db)
            bool(db == da)
            common.apply_past(da, uni, case.get("past_a") or [], extra_query=lambda: bool(da == db))
            common.apply_past(db, uni, case.get("past_b") or [], extra_query=lambda: bool(db == da))
        obs_a = [[[dscommon.enc_elem(e) for e in b] for b in r.buckets] for r in da.rankings]
        obs_b = [[[dscommon.enc_elem(e) for e in b] for b in r.buckets] for r in db.rankings]
        # agreement with ranking equality: multiset comparison done with Ranking.__eq__
        rest = list(db.rankings)
        by_ranking_eq = len(da.rankings) == len(rest)
        for r in da.rankings:
            for i, q in enumerate(rest):
                if r == q:
                    rest.pop(i)
                    break
            else:
                by_ranking_eq = False
        return {"a": obs_a, "b": obs_b, "eq": bool(da == db), "eq_sym": bool(db == da), "refl": bool(da == da) and bool(db == db),
                "ne": bool(da != db), "by_ranking_eq": by_ranking_eq and not rest}
    except Exception as exc:  # noqa: BLE001
        return {"err": "other:" + type(exc).__name__ + ":" + str(exc)[:200]}


def ops(case, out):
    if "err" in out:
        return []
    return [("ds.eq", [out["a"], out["b"]])]


def judge(case, out, answers):
    tags = ["var:" + case["var"], "names:" + case["kind"]]
    if "err" in out:
        # a generated pair the constructor rejects (e.g. only empty rankings) is not a case of this property
        return {"agree": True, "holds": None, "diff": out["err"], "nontrivial": False, "tags": tags + ["ctor-rejected"]}
    m = bool(answers[0])
    diff = []
    if m != out["eq"]:
        diff.append("==: model %s impl %s" % (m, out["eq"]))
    holds = (out["eq"] == m and out["eq_sym"] == out["eq"] and out["refl"] and out["ne"] == (not out["eq"])
             and out["by_ranking_eq"] == out["eq"])
    tags.append("equal" if out["eq"] else "different")
    if case.get("past_a") or case.get("past_b"):
        tags.append("datasets-with-a-past")
    nontrivial = case["var"] in ("perm_rankings", "perm_members", "multiplicity", "move", "swap_buckets", "merge")
    return {"agree": not diff, "holds": holds, "diff": "; ".join(diff) + ("" if holds else " impl: %s" % {k: out[k] for k in ("eq", "eq_sym", "refl", "ne", "by_ranking_eq")}),
            "nontrivial": nontrivial, "tags": tags}
