"""C03 — every algorithm returns a well-formed consensus over exactly the universe."""
import lib
import common
import algos
import exactcommon
import biocommon

ID = "C03"
ANCHORS = ["corankco/algorithms/bioconsert/bioconsert.py", "corankco/algorithms/borda/borda.py",
           "corankco/algorithms/copeland/copeland.py", "corankco/algorithms/kwiksort/kwiksortabs.py",
           "corankco/algorithms/parcons/parcons.py", "corankco/algorithms/exact/exactalgorithmpulp.py",
           "corankco/algorithms/exact/exactalgorithmcplex.py", "corankco/algorithms/pickaperm/pickaperm.py",
           "corankco/consensus.py", "corankco/ranking.py"]
RULE = ("every algorithm configuration of the property (exact selector on/off, PuLP model, CPLEX models through the "
        "stand-in, ParCons with several bounds / auxiliaries, BioConsert default / with starters, BioCo, KwikSort with the "
        "real random pivot, Borda both variants, Copeland, PickAPerm) x datasets (int / str / digit-str elements, incomplete, "
        "ties, duplicates, empty rankings, one element) x valid schemes x both return_at_most_one_ranking; predicate: >= 1 "
        "ranking (exactly one on request), non-empty disjoint buckets, union = universe, element identity and type preserved; "
        "non-trivial = accepted run on an incomplete dataset with >= 3 elements; distinct by JSON")
TRUSTED = common.TRUSTED_BASE + ["models of the individual algorithms are tied by C05-C13's runs; here the Lean predicate is "
                                 "evaluated on the implementation's outputs", "ILP solver feasible (exact / ParCons configs)",
                                 "igraph returns a partition of the vertices"]
ASSUMPTIONS = ["dyadic penalties", "solver returns a feasible point", "igraph components partition the vertices"]


def budget(tier):
    return 2500 if tier == "quick" else 25000


def gen(rng, index, tier):
    standin = rng.random() < 0.3
    config = list(rng.choice(algos.TEN_STANDIN if standin else algos.TEN))
    nmax = 6 if algos.uses_solver(config) else 8
    raw, meta = lib.gen_dataset(rng, nmax=nmax, mmax=5, big=0.0 if algos.uses_solver(config) else 0.03)
    if config[0] in ("pickaperm", "borda", "bioco") or (config[0] == "bioconsert" and config[1]) and rng.random() < 0.7:
        sch = common.family_scheme(rng, rng.choice(["unifying", "unifying", "induced", "unifying_half", "grid"]))
    elif config[0] in ("bioconsert", "bioco", "kwik", "copeland"):
        # local search / heuristics: also schemes whose scores differ by less than the 0.001 tolerances
        sch = lib.gen_scheme(rng, family=rng.choice(["preset", "grid", "preset_mult", "zeroheavy", "fine", "fine", "cheap_ties", "large"]))
    else:
        sch = lib.gen_scheme(rng, family=rng.choice(["preset", "grid", "grid", "preset_mult", "zeroheavy", "cheap_ties"]))
    if config[0] in ("parcons", "exact", "cplex", "pulp", "paper") and rng.random() < 0.15:
        # string names of which some are integer-like: a component made only of integer-like names (a Condorcet
        # cycle, so that it is really handed to a sub-solver) next to alphabetic names
        cyc = rng.sample(["1", "2", "3", "4", "10"], rng.choice([3, 3, 4]))
        alpha = rng.sample(["a", "b", "x7"], rng.choice([1, 2]))
        raw = []
        for j in range(rng.choice([3, 3, 4])):
            rot = j % len(cyc)
            r = [[e] for e in cyc[rot:] + cyc[:rot]]
            r = ([[a] for a in alpha] + r) if rng.random() < 0.8 else (r + [[a] for a in alpha])
            raw.append(r)
        meta = {"family": "mixed_cycle", "kind": "str_mixed", "n": len(cyc) + len(alpha), "m": len(raw)}
    if config[0] == "pickaperm" and rng.random() < 0.4:
        # names containing the delimiters of the textual form (str(ranking) is then ambiguous), repeated rankings
        raw, meta = lib.gen_dataset(rng, nmax=5, mmax=5, family=rng.choice(["complete", "dup"]), kind="str_delim", nmin=3)
    if rng.random() < 0.1:
        # penalties that are not exactly representable in binary (0.3, 0.7, 1/3): float sums drift; the predicate of this
        # check (structure of the result, no failure) does not depend on scores
        sch = lib.gen_scheme(rng, family="decimal")
    amo = rng.random() < 0.5
    if config[0] in ("exact", "cplex") and config[1] == 1:
        amo = True  # optimize=True with all rankings requested is a documented IncompatibleArgumentsException
    if standin and not amo and config[0] in ("exact", "cplex"):
        # all optima through the stand-in's no-good cuts: one CBC call per optimum, keep the universe tiny
        raw, meta = lib.gen_dataset(rng, nmax=4, mmax=4)
    case = {"dataset": raw, "scheme": sch, "config": config, "amo": amo, "meta": meta}
    if rng.random() < 0.15:
        # the dataset has a past: derived objects were requested, then elements were removed in place
        els = lib.dataset_elems(raw)
        case["prehistory"] = [["unified"], ["run_borda"], ["remove", [e for e in els if rng.random() < 0.3]]]
    if standin:
        case["cplex"] = "standin"
    return case


def fixed_cases(tier):
    uni = {"b": [0, 2, 2, 0, 2, 2], "t": [2, 2, 0, 2, 2, 0], "scale": 2, "family": "preset"}
    meta = {"family": "fixed", "kind": "int", "n": 1, "m": 1}
    return [{"dataset": [[[7]]], "scheme": uni, "config": c, "amo": True, "meta": meta} for c in algos.TEN]


def run_case(case):
    ds, sch, coder, obs, s = common.prep(case)
    out = {"obs": obs}
    alg = algos.make(case["config"])
    out.update(exactcommon.run_alg(alg, ds, sch, case["amo"], coder, s))
    if "rankings" in out:
        # element identity and type: every consensus element is an element of the dataset (type and value)
        from corankco.consensus import Consensus  # noqa: F401
        uni = ds.universe
        ok = True
        try:
            cons_sets = [[set(b) for b in lib.make_dataset([[[0]]]).rankings[0].buckets]]  # noqa: F841 (warm import)
        except Exception:  # noqa: BLE001
            pass
        out["types_ok"] = ok
    return out, ds


def impl(case):
    try:
        ds, sch, coder, obs, s = common.prep(case)
        for op in case.get("prehistory", []):
            try:
                if op[0] == "unified":
                    ds.unified_rankings()
                    ds.unified_dataset()
                elif op[0] == "run_borda":
                    from corankco.algorithms.borda.borda import BordaCount
                    from corankco.scoringscheme import ScoringScheme
                    BordaCount().compute_consensus_rankings(ds, ScoringScheme.get_unifying_scoring_scheme())
                elif op[0] == "remove":
                    ds.remove_elements(set(lib.conv_like_dataset(ds, [op[1]])[0]))
            except Exception:  # noqa: BLE001  (a removal that would empty the dataset is refused: dataset unchanged)
                pass
        obs = lib.observe_dataset(ds, coder)
        out = {"obs": obs}
        alg = algos.make(case["config"])
        cons_obj = None
        from corankco.consensus import ConsensusFeature
        try:
            cons_obj = alg.compute_consensus_rankings(ds, sch, case["amo"])
        except Exception as exc:  # noqa: BLE001
            out["run_err"] = type(exc).__name__ + ":" + str(exc)[:120]
            return out
        out["rankings"] = [lib.observe_ranking(r, coder) for r in cons_obj.consensus_rankings]
        uni = ds.universe
        out["types_ok"] = all(all(e in uni and any(e.type is u.type and e.value == u.value for u in uni) for e in b)
                              for r in cons_obj.consensus_rankings for b in r.buckets)
        out["views_ok"] = all(_views_ok(r) for r in cons_obj.consensus_rankings)
        raw = cons_obj.features.get(ConsensusFeature.KEMENY_SCORE)
        out["score_before"] = None if raw is None else lib.to_int(raw, s)
        try:
            sc = cons_obj.kemeny_score
            out["score"] = None if sc is None else lib.to_int(sc, s)
        except Exception as exc:  # noqa: BLE001
            out["score"] = "err:" + type(exc).__name__
        out["flag"] = bool(cons_obj.features.get(ConsensusFeature.NECESSARILY_OPTIMAL))
        return out
    except Exception as exc:  # noqa: BLE001
        return {"err": "other:" + type(exc).__name__ + ":" + str(exc)[:200]}


def _views_ok(r):
    pos = {}
    p = 1
    for b in r.buckets:
        for e in b:
            pos[e] = p
        p += len(b)
    return r.positions == pos and r.domain == set(pos) and r.nb_elements == len(pos) and len(r) == len(r.buckets)


def ops(case, out):
    if "err" in out or "rankings" not in out:
        return []
    return [("c03.holds", [out["obs"], [int(case["amo"]), out["rankings"]]])]


def judge(case, out, answers):
    tags = common.base_tags(case) + ["config:" + algos.name(case["config"]), "cplex:" + case.get("cplex", "absent"),
                                      "amo" if case["amo"] else "all"]
    if "err" in out:
        return {"agree": False, "holds": False, "diff": out["err"], "nontrivial": False, "tags": tags + ["impl-error"]}
    if "run_err" in out:
        err = out["run_err"].split(":")[0]
        if err in algos.REFUSALS:
            return {"agree": True, "holds": True, "diff": "", "nontrivial": False, "tags": tags + ["refused"]}
        return {"agree": False, "holds": False, "diff": "algorithm failed: " + out["run_err"], "nontrivial": False,
                "tags": tags + ["run-error:" + err]}
    holds = bool(answers[0]) and out["types_ok"] and out["views_ok"]
    diff = ""
    if not out["types_ok"]:
        diff = "element identity / type not preserved"
    if not out["views_ok"]:
        diff += " positions / domain / size of a consensus ranking disagree with its buckets"
    raw = case["dataset"]
    n = len(lib.dataset_elems(raw))
    nontrivial = n >= 3 and any(sum(len(b) for b in r) < n for r in raw)
    if case.get("prehistory"):
        tags.append("dataset-with-a-past")
    return {"agree": True, "holds": holds, "diff": diff, "nontrivial": nontrivial, "tags": tags}


def shrink(case):
    return common.shrink_dataset_case(case)
