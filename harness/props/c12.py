"""C12 — Borda orders elements by mean positional score, per the documented variants."""
import lib
import common

ID = "C12"
ANCHORS = ["corankco/algorithms/borda/borda.py", "corankco/scoringscheme.py", "corankco/dataset.py"]
RULE = ("seeded datasets (complete / incomplete, ties, empty rankings, duplicates) x schemes (four accepted families "
        "and multiples, one-entry near-misses, other presets, grid) x both tie variants; compared: consensus or refusal "
        "class with the model; metamorphic: shuffled ranking order and renamed elements; non-trivial = incomplete "
        "dataset with >= 3 elements and a tie; distinct by JSON")
TRUSTED = common.TRUSTED_BASE + ["hand translation of borda.py:40-136 (tied by this run)",
                                 "mean comparison by cross-multiplication = float division while n*m^2 < 2^52"]
ASSUMPTIONS = ["dyadic penalties"]


def budget(tier):
    return 8000 if tier == "quick" else 80000


def gen(rng, index, tier):
    raw, meta = lib.gen_dataset(rng, nmax=7 if tier == "quick" else 10, mmax=5, big=0.06, big_nmax=200, big_hi=0.5)
    if tier == "thorough" and rng.random() < 0.0002:
        # a handful of instances of several hundred elements (thresholds such as 256, 512, 1000 in a "fast path")
        raw, meta = lib.gen_dataset(rng, n_exact=rng.choice([300, 600, 1100]), mmax=6)
    case = {"dataset": raw, "scheme": common.family_scheme(rng), "use_bid": rng.random() < 0.5, "meta": meta,
            "perm_seed": rng.randint(0, 10 ** 6)}
    if rng.random() < 0.12:
        case["past"] = common.gen_past(rng, raw)
    return case


def _run(ds, sch, use_bid, coder):
    from corankco.algorithms.borda.borda import BordaCount
    from corankco.algorithms.rank_aggregation_algorithm import ScoringSchemeNotHandledException
    try:
        cons = BordaCount(use_bucket_id=use_bid).compute_consensus_rankings(ds, sch)
    except ScoringSchemeNotHandledException:
        return None
    rs = common.obs_rankings(cons.consensus_rankings, coder)
    if len(rs) != 1:
        return ["several", rs]
    return rs[0]


def impl(case):
    import random
    try:
        ds, sch, coder, obs, s = common.prep(case)
        if case.get("past"):
            common.apply_past(ds, sch, case["past"], extra_query=lambda: _run(ds, sch, case["use_bid"], coder))
            obs = lib.observe_dataset(ds, coder)
            case = dict(case)
            case["dataset"] = [[[coder.value(x) for x in b] for b in r] for r in obs]
        out = _run(ds, sch, case["use_bid"], coder)
        # metamorphic: order of the rankings
        prng = random.Random(case["perm_seed"])
        raw2 = list(case["dataset"])
        prng.shuffle(raw2)
        ds2 = lib.make_dataset(raw2)
        c2 = lib.Coder()
        c2.table, c2.rev = dict(coder.table), list(coder.rev)
        out2 = _run(ds2, sch, case["use_bid"], c2)
        return {"obs": obs, "out": out, "out_shuffled": out2}
    except Exception as exc:  # noqa: BLE001
        return {"err": "other:" + type(exc).__name__ + ":" + str(exc)[:200]}


def ops(case, out):
    if "err" in out:
        return []
    S = lib.scheme_tree(case["scheme"])
    o = out["out"]
    res = [("alg.borda", [int(case["use_bid"]), [S, out["obs"]]])]
    if o is None or (isinstance(o, list) and (not o or o[0] != "several")):
        res.append(("c12.holds", [int(case["use_bid"]), [S, [out["obs"], [] if o is None else [o]]]]))
    return res


def judge(case, out, answers):
    tags = common.base_tags(case) + ["bid" if case["use_bid"] else "size"]
    if "err" in out:
        return {"agree": False, "holds": False, "diff": out["err"], "nontrivial": False, "tags": tags + ["impl-error"]}
    m = answers[0]
    model = lib.canon_ranking(m[1]) if m[0] == 0 else None
    diff = []
    if model != out["out"]:
        diff.append("consensus: model %s impl %s" % (model, out["out"]))
    holds = bool(answers[1]) if len(answers) > 1 else False
    if out["out_shuffled"] != out["out"]:
        holds = False
        diff.append("depends on the order of the rankings: %s vs %s" % (out["out"], out["out_shuffled"]))
    raw = case["dataset"]
    n = len(lib.dataset_elems(raw))
    incomplete = any(sum(len(b) for b in r) < n for r in raw)
    tags.append("refused" if out["out"] is None else "accepted")
    tags.append("incomplete" if incomplete else "complete")
    nontrivial = incomplete and n >= 3 and any(len(b) > 1 for r in raw for b in r)
    return {"agree": not diff, "holds": holds, "diff": "; ".join(diff), "nontrivial": nontrivial, "tags": tags}


def shrink(case):
    return common.shrink_dataset_case(case)
