"""C16 — Ranking/Dataset views stay consistent through every construction and mutation."""
import lib
import common
import dscommon

ID = "C16"
ANCHORS = ["corankco/ranking.py", "corankco/dataset.py", "corankco/element.py"]
RULE = ("histories: a constructor (Dataset(...), from_raw_list; int, str, digit-str, leading-zero, mixed int/str names) "
        "followed by <= 6 operations among remove_elements, remove_elements_rate_presence_lower_than, remove_empty_rankings, "
        "unified_rankings / unified_dataset, sub_problem_from_elements, sub_problem_from_ids; after EVERY operation the complete view snapshot "
        "(buckets, positions, domain, sizes per ranking; universe, both id maps, counts, flags, position and bucket-id "
        "matrices) is compared with the model's and checked against the invariant; also the views of every algorithm's "
        "consensus rankings; non-trivial = history with >= 2 mutators on an incomplete dataset; distinct by JSON")
TRUSTED = common.TRUSTED_BASE + ["hand translation of dataset.py / ranking.py / element.py (tied by this run, state after every op)"]
ASSUMPTIONS = ["element names: ints and ASCII strings"]
ERR = {"EmptyDatasetException": [1], "ValueError": [2]}


def budget(tier):
    return 5000 if tier == "quick" else 50000


def names(rng, n):
    kind = rng.choice(["int", "int", "str", "str_digit", "mixed_intlike", "mixed_str", "leading_zero", "hash_equal", "unicode_digit"])
    if kind == "unicode_digit":
        # names made of characters str.isdigit() accepts but int() refuses, alone or next to ASCII digits
        pool = ["²", "³", "1²", "①", "2", "10", "²³", "3①", "7"]
        return kind, rng.sample(pool, n)
    if kind == "hash_equal":
        # different ints with the same Python hash (-1 / -2, k / k + 2^61 - 1)
        m61 = 2 ** 61 - 1
        return kind, rng.sample([-1, -2, 0, m61, 7, 7 + m61, -3, -3 - m61, 5, 5 + 2 * m61], n)
    if kind == "int":
        return kind, rng.sample(range(0, 30), n)
    if kind == "str":
        return kind, ["e%d" % i for i in rng.sample(range(0, 30), n)]
    if kind == "str_digit":
        return kind, [str(i) for i in rng.sample(range(0, 30), n)]
    if kind == "mixed_intlike":
        return kind, [i if rng.random() < 0.5 else str(i) for i in rng.sample(range(0, 30), n)]
    if kind == "mixed_str":
        return kind, [i if rng.random() < 0.5 else "x%d" % i for i in rng.sample(range(0, 30), n)]
    vals = rng.sample(range(0, 9), n) if n <= 9 else list(range(n))
    return kind, [("0" * rng.randint(0, 2)) + str(i) for i in vals]


def gen(rng, index, tier):
    n = rng.randint(1, 7)
    big = rng.random() < 0.02
    kind, els = names(rng, n)
    if big:
        # a few instances well above the usual sizes (code paths that depend on a size)
        n = rng.randint(12, 25)
        kind, els = rng.choice([("int", rng.sample(range(0, 60), n)), ("str", ["e%d" % i for i in range(n)]),
                                ("mixed_intlike", [i if rng.random() < 0.5 else str(i) for i in rng.sample(range(0, 60), n)])])
    m = rng.randint(1, 5)
    td = rng.choice([0.0, 0.3, 0.6])
    raw = []
    for _ in range(m):
        shape = rng.choice(["complete", "incomplete", "incomplete", "empty"])
        raw.append(lib.gen_ranking(rng, els, td, shape))
    if not any(raw):
        raw.append(lib.gen_ranking(rng, els, td, "complete"))
    if kind == "leading_zero" and rng.random() < 0.3 and n >= 2:
        # two spellings of the same integer
        raw.append([["7"], ["07"]] if rng.random() < 0.5 else [["7", "07"]])
    ops = []
    for _ in range(rng.randint(0, 6)):
        k = rng.choice([0, 0, 1, 2, 3, 3, 4, 4, 5])
        if k == 0:
            sub = [e for e in els if rng.random() < 0.35]
            ops.append([0, sub])
        elif k == 1:
            ops.append([1, rng.choice([0, 1, 2, 3, 4, 5, 6, 8, 9]), 8])
        elif k == 2:
            ops.append([2])
        elif k == 3:
            ops.append([3])
        elif k == 4:
            ops.append([4, [e for e in els if rng.random() < 0.5]])
        else:
            # sub_problem_from_ids: ids that exist at that point among these numbers
            ops.append([5, [i for i in range(n) if rng.random() < 0.5]])
    return {"raw": raw, "ops": ops, "ctor": rng.choice(["init", "from_raw_list"]), "kind": kind}


def fixed_cases(tier):
    return [{"raw": [[[1], [2, 3]], [[4], [2]]], "ops": [[0, [1]], [3]], "ctor": "init", "kind": "fixed-D6-D7"},
            {"raw": [[[1], [2]], [[3]]], "ops": [[3]], "ctor": "init", "kind": "fixed-D7"}]


def _conv(ds, values):
    """values as the dataset names them now"""
    types = {e.type for e in ds.universe}
    out = []
    for v in values:
        if types == {int} and (isinstance(v, int) or str(v).isdecimal()):
            out.append(int(v))
        else:
            out.append(str(v) if types == {str} else v)
    return out


def impl(case):
    from corankco.dataset import Dataset
    from corankco.ranking import Ranking
    res = []
    id_names = {}
    try:
        try:
            if case["ctor"] == "init":
                ds = Dataset([Ranking([lib.ordered_set(b) for b in r]) for r in case["raw"]])
            else:
                ds = Dataset.from_raw_list([[lib.ordered_set(b) for b in r] for r in case["raw"]])
        except Exception as exc:  # noqa: BLE001
            return {"steps": [ERR.get(type(exc).__name__, ["other:" + type(exc).__name__])], "id_names": {}}
        res.append([0, dscommon.snapshot(ds)])
        for op in case["ops"]:
            try:
                if op[0] == 0:
                    ds.remove_elements(set(_conv(ds, op[1])))
                    res.append([0, dscommon.snapshot(ds)])
                elif op[0] == 1:
                    ds.remove_elements_rate_presence_lower_than(op[1] / op[2])
                    res.append([0, dscommon.snapshot(ds)])
                elif op[0] == 2:
                    ds.remove_empty_rankings()
                    res.append([0, dscommon.snapshot(ds)])
                elif op[0] == 3:
                    uni = ds.unified_rankings()
                    views = [dscommon.rview(r) for r in uni]
                    try:
                        ud = [0, dscommon.snapshot(ds.unified_dataset())]
                    except Exception as exc:  # noqa: BLE001
                        ud = ERR.get(type(exc).__name__, ["other:" + type(exc).__name__])
                    res.append([0, views, ud, dscommon.snapshot(ds)])
                elif op[0] == 5:
                    ids = {i for i in op[1] if i in ds.mapping_id_elem}
                    id_names[len(res)] = [dscommon.enc_elem(ds.mapping_id_elem[i]) for i in sorted(ids)]
                    try:
                        sp = [0, dscommon.snapshot(ds.sub_problem_from_ids(ids))]
                    except Exception as exc:  # noqa: BLE001
                        sp = ERR.get(type(exc).__name__, ["other:" + type(exc).__name__])
                    res.append(sp + [dscommon.snapshot(ds)] if sp[0] == 0 else [sp[0], None, dscommon.snapshot(ds)])
                else:
                    keep = set(_conv(ds, op[1]))
                    try:
                        sp = [0, dscommon.snapshot(ds.sub_problem_from_elements(keep))]
                    except Exception as exc:  # noqa: BLE001
                        sp = ERR.get(type(exc).__name__, ["other:" + type(exc).__name__])
                    res.append(sp + [dscommon.snapshot(ds)] if sp[0] == 0 else [sp[0], None, dscommon.snapshot(ds)])
            except Exception as exc:  # noqa: BLE001
                res.append(ERR.get(type(exc).__name__, ["other:" + type(exc).__name__]) + [dscommon.snapshot(ds)])
        return {"steps": res, "id_names": {str(k): v for k, v in id_names.items()}}
    except Exception as exc:  # noqa: BLE001
        return {"err": "other:" + type(exc).__name__ + ":" + str(exc)[:200]}


def _ops_for_model(case):
    ops = []
    for op in case["ops"]:
        if op[0] == 0:
            ops.append([0, None])  # filled per state (names as the dataset names them) below
        else:
            ops.append(op)
    return ops


def ops(case, out):
    if "err" in out:
        return []
    # element arguments must be named as the dataset names them at that point: int-like strings -> ints when the
    # dataset is all-int. The model gets both spellings, which is harmless (unknown names are ignored).
    mops = []
    for k, op in enumerate(case["ops"]):
        if op[0] == 5:
            # the ids the implementation resolved at that point, by name (a step that was never reached: no names)
            mops.append([4, out.get("id_names", {}).get(str(k + 1), [])])
        elif op[0] in (0, 4):
            both = []
            for v in op[1]:
                both.append(dscommon.enc_name(v))
                if isinstance(v, int):
                    both.append(dscommon.enc_name(str(v)))
                elif str(v).isdecimal():
                    both.append(dscommon.enc_name(int(v)))
            mops.append([op[0], both])
        else:
            mops.append(op)
    res = [("ds.run", [dscommon.enc_raw(case["raw"]), mops])]
    # derived objects: unification / projection predicates evaluated on the implementation's own objects
    for k, st in enumerate(out["steps"]):
        if k == 0 or st[0] != 0:
            continue
        op = case["ops"][k - 1]
        if op[0] == 3 and dscommon.snapshot_is_protocol(st[3]):
            snap = st[3]
            res.append(("c16.unified", [snap[1], [v[0] for v in snap[0]], st[1]]))
        elif op[0] == 5 and st[1] is not None and dscommon.snapshot_is_protocol(st[2]):
            snap = st[2]
            res.append(("c16.proj", [[v[0] for v in snap[0]], out["id_names"][str(k)], [v[0] for v in st[1][0]]]))
        elif op[0] == 4 and st[1] is not None and dscommon.snapshot_is_protocol(st[2]):
            snap = st[2]
            keep = []
            for v in op[1]:
                keep.append(dscommon.enc_name(v))
                if isinstance(v, int):
                    keep.append(dscommon.enc_name(str(v)))
                elif str(v).isdecimal():
                    keep.append(dscommon.enc_name(int(v)))
            res.append(("c16.proj", [[v[0] for v in snap[0]], keep, [v[0] for v in st[1][0]]]))
    # invariant on every snapshot the implementation produced
    for st in out["steps"]:
        for item in st[1:]:
            if isinstance(item, list) and len(item) == 10 and dscommon.snapshot_is_protocol(item):
                res.append(("c16.inv", item))
            elif isinstance(item, list) and len(item) == 2 and item[0] == 0 and isinstance(item[1], list) \
                    and len(item[1]) == 10 and dscommon.snapshot_is_protocol(item[1]):
                res.append(("c16.inv", item[1]))
    return res


def judge(case, out, answers):
    tags = ["names:" + case["kind"], "ctor:" + case["ctor"]]
    if "err" in out:
        return {"agree": False, "holds": False, "diff": out["err"], "nontrivial": False, "tags": tags + ["impl-error"]}
    msteps = answers[0]
    isteps = out["steps"]
    diff = []
    holds = all(bool(a) for a in answers[1:])
    if not holds:
        diff.append("invariant violated on a snapshot of the implementation")
    opnames = {0: "remove_elements", 1: "remove_rate", 2: "remove_empty", 3: "unified", 4: "sub_problem", 5: "sub_problem_from_ids"}
    if len(msteps) != len(isteps):
        diff.append("constructor outcome: model %s impl %s" % (msteps[0][:1], isteps[0][:1]))
        if msteps[0][0] == 0 and isteps[0][0] != 0:
            # disjoint buckets, at least one element: a dataset the API must build (and then report consistently)
            holds = False
            diff.append("invariant: the constructor refuses a well-formed dataset (%s)" % (isteps[0][:1],))
    else:
        cur_model = None
        for k, (ms, ist) in enumerate(zip(msteps, isteps)):
            what = "ctor" if k == 0 else opnames[case["ops"][k - 1][0]]
            if k > 0:
                tags.append("op:" + what)
            kind = None if k == 0 else case["ops"][k - 1][0]
            if any(isinstance(x, str) for x in ist[:1]):
                diff.append("%s: unexpected exception %s" % (what, ist[0]))
                holds = False
                continue
            if kind == 3:
                # ms = [0, views, ud]; ist = [0, views, ud, snap_after]
                mv = [dscommon.canon_rview(v) for v in ms[1]]
                iv = [dscommon.canon_rview(v) for v in ist[1]]
                if mv != iv:
                    diff.append("step %d unified_rankings views: model %s impl %s" % (k, mv, iv))
                if ms[2][0] != ist[2][0] or (ms[2][0] == 0 and dscommon.canon_snapshot(ms[2][1]) != dscommon.canon_snapshot(ist[2][1])):
                    diff.append("step %d unified_dataset differs" % k)
                after = ist[3]
            elif kind in (4, 5):
                if ms[0] != ist[0] or (ms[0] == 0 and dscommon.canon_snapshot(ms[1]) != dscommon.canon_snapshot(ist[1])):
                    diff.append("step %d sub_problem: model %s impl %s" % (k, ms[:1], ist[:1]))
                after = ist[2]
            else:
                if ms[0] != ist[0]:
                    diff.append("step %d %s: outcome model %s impl %s" % (k, what, ms[0], ist[0]))
                    after = None
                elif ms[0] == 0:
                    cur_model = ms[1]
                    after = ist[1]
                else:
                    after = ist[1] if len(ist) > 1 else None
                    tags.append("exception:%s" % ms[0])
            if after is not None and cur_model is not None:
                if dscommon.canon_snapshot(after) != dscommon.canon_snapshot(cur_model):
                    diff.append("step %d (%s): state of the dataset differs from the model: impl %s model %s" % (
                        k, what, dscommon.canon_snapshot(after)[1:8], dscommon.canon_snapshot(cur_model)[1:8]))
            if k == 0 and ms[0] == 0:
                cur_model = ms[1]
    muts = sum(1 for op in case["ops"] if op[0] in (0, 1, 2))
    nontrivial = muts >= 2 and any(sum(len(b) for b in r) < len(lib.dataset_elems(case["raw"])) for r in case["raw"])
    return {"agree": not [d for d in diff if not d.startswith("invariant")], "holds": holds, "diff": "; ".join(diff)[:3000],
            "nontrivial": nontrivial, "tags": sorted(set(tags))}


def shrink(case):
    for i in range(len(case["ops"])):
        c = dict(case)
        c["ops"] = case["ops"][:i] + case["ops"][i + 1:]
        yield c
    raw = case["raw"]
    for i in range(len(raw)):
        if len(raw) > 1:
            c = dict(case)
            c["raw"] = raw[:i] + raw[i + 1:]
            yield c
