"""C20 — random dataset generators: every Markov step keeps the dense bucket numbering; delivered datasets
have the requested shape."""
import lib

ID = "C20"
ANCHORS = ["corankco/ranking.py", "corankco/dataset.py"]
RULE = ("case kinds: gen (Dataset.get_random_dataset_markov with corankco.ranking.randint scripted: final rankings, "
        "flags, EmptyDatasetException vs model), walk (private step functions on one vector, vector after EVERY step "
        "vs model + density), move (each of the six private moves on random dense vectors), uniform; non-trivial = "
        "walk/gen with >= 4 distinct moves drawn and >= 1 renumbering, or move that changes the vector; distinct by JSON")
TRUSTED = ["Lean 4 kernel", "axioms: propext, Classical.choice, Quot.sound (audited per theorem)",
           "hand translation of ranking.py:207-383 (tied per step by this run)", "the `random` module (scripted)",
           "numpy fancy indexing semantics", "harness encoding / Lean driver parser"]
ASSUMPTIONS = ["randint/shuffle are replaced by a scripted source: the theorems quantify over every draw sequence"]


def budget(tier):
    return 6000 if tier == "quick" else 60000


def dense_vector(rng, n, allow_missing):
    k = rng.randint(1, n)
    v = [rng.randrange(k) for _ in range(n)]
    used = sorted(set(v))
    v = [used.index(x) for x in v]
    if allow_missing:
        for i in range(n):
            if rng.random() < 0.2:
                v[i] = -1
        used = sorted(set(x for x in v if x >= 0))
        v = [used.index(x) if x >= 0 else -1 for x in v]
    return v


def gen(rng, index, tier):
    kind = rng.choice(["gen", "gen", "walk", "walk", "move", "uniform"])
    nmax = 7 if tier == "quick" else 10
    n = rng.randint(1, nmax)
    if rng.random() < 0.03:
        n = rng.randint(12, 30)   # a few instances well above the usual sizes (code paths that depend on a size)
    if kind == "gen":
        m = rng.randint(1, 4)
        steps = rng.choice([0, 1, 3, 10, 40, 120])
        complete = rng.random() < 0.5
        script = [[[rng.randint(0, n - 1), rng.randint(1, 4 if complete else 5)] for _ in range(steps)] for _ in range(m)]
        return {"kind": kind, "n": n, "m": m, "steps": steps, "complete": complete, "script": script}
    if kind == "walk":
        complete = rng.random() < 0.5
        steps = rng.randint(1, 60)
        v = dense_vector(rng, n, not complete)
        script = [[rng.randint(0, n - 1), rng.randint(1, 4 if complete else 5)] for _ in range(steps)]
        return {"kind": kind, "complete": complete, "v": v, "script": script}
    if kind == "move":
        mv = rng.randint(1, 6)
        v = dense_vector(rng, n, True)
        if mv == 6:
            if -1 not in v:
                v[rng.randrange(n)] = -1
                used = sorted(set(x for x in v if x >= 0))
                v = [used.index(x) if x >= 0 else -1 for x in v]
            e = rng.choice([i for i in range(n) if v[i] == -1])
        else:
            if all(x == -1 for x in v):
                v[0] = 0
            e = rng.choice([i for i in range(n) if v[i] >= 0])
        return {"kind": kind, "move": mv, "v": v, "e": e}
    return {"kind": "uniform", "n": n, "m": rng.randint(1, 4)}


def fixed_cases(tier):
    """thorough: EXHAUSTIVE — each of the six moves on every dense vector (with absent elements) of length <= 4 and
    every admissible element"""
    if tier != "thorough":
        return []
    from itertools import product
    cases = []
    for n in range(1, 5):
        for v in product(range(-1, n), repeat=n):
            ranked = sorted(set(x for x in v if x >= 0))
            if ranked != list(range(len(ranked))):
                continue
            for e in range(n):
                for mv in range(1, 7):
                    if (mv == 6) != (v[e] == -1):
                        continue
                    cases.append({"kind": "move", "move": mv, "v": list(v), "e": e})
    return cases


class Script:
    def __init__(self, values):
        self.values = list(values)
        self.pos = 0
        self.bad = None

    def __call__(self, lo, hi):
        if self.pos >= len(self.values):
            self.bad = "script exhausted"
            return lo
        v = self.values[self.pos]
        self.pos += 1
        if not lo <= v <= hi:
            self.bad = "script value %d outside [%d,%d] at %d" % (v, lo, hi, self.pos - 1)
            return lo
        return v


MOVES = {1: "_Ranking__add_left", 2: "_Ranking__add_right", 3: "_Ranking__change_left", 4: "_Ranking__change_right",
         5: "_Ranking__remove_element", 6: "_Ranking__put_element_first"}


def impl(case):
    import numpy as np
    import corankco.ranking as rk
    from corankco.ranking import Ranking
    from corankco.dataset import Dataset, EmptyDatasetException
    kind = case["kind"]
    orig = rk.randint
    try:
        if kind == "gen":
            flat = [x for r in case["script"] for pair in r for x in pair]
            sc = Script(flat)
            rk.randint = sc
            try:
                ds = Dataset.get_random_dataset_markov(case["n"], case["m"], case["steps"], case["complete"])
            except EmptyDatasetException:
                return {"rankings": [], "empty_exc": True, "script_bad": sc.bad, "used": sc.pos}
            finally:
                rk.randint = orig
            coder = lib.Coder()
            for i in range(case["n"]):
                coder.code(i)
            types_ok = all(e.type is int for e in ds.universe)
            return {"rankings": [lib.canon_ranking(lib.observe_ranking(r, coder)) for r in ds.rankings],
                    "empty_exc": False, "is_complete": bool(ds.is_complete), "nb_rankings": ds.nb_rankings,
                    "nb_elements": ds.nb_elements, "script_bad": sc.bad, "used": sc.pos, "types_ok": types_ok}
        if kind == "walk":
            name = "_Ranking__step_element_complete" if case["complete"] else "_Ranking__step_element_incomplete"
            fn = getattr(Ranking, name, None)
            if fn is None:
                return {"unavailable": True}
            v = np.array(case["v"], dtype=int)
            missing = set(i for i, x in enumerate(case["v"]) if x == -1)
            states = []
            for e, alea in case["script"]:
                sc = Script([alea])
                rk.randint = sc
                try:
                    if case["complete"]:
                        fn(v, e)
                    else:
                        fn(v, e, missing)
                finally:
                    rk.randint = orig
                states.append([int(x) for x in v])
            return {"states": states, "missing_in_step": sorted(missing) == [i for i, x in enumerate(v) if x == -1]}
        if kind == "move":
            fn = getattr(Ranking, MOVES[case["move"]], None)
            if fn is None:
                return {"unavailable": True}
            v = np.array(case["v"], dtype=int)
            fn(v, case["e"])
            return {"v": [int(x) for x in v]}
        ds = Dataset.get_uniform_permutation_dataset(case["n"], case["m"])
        coder = lib.Coder()
        for i in range(case["n"] + 1):
            coder.code(i)
        return {"rankings": [lib.observe_ranking(r, coder) for r in ds.rankings], "is_complete": bool(ds.is_complete),
                "without_ties": bool(ds.without_ties)}
    except Exception as exc:  # noqa: BLE001
        return {"err": "other:" + type(exc).__name__ + ":" + str(exc)[:200]}
    finally:
        rk.randint = orig


def ops(case, out):
    if "err" in out or out.get("unavailable"):
        return []
    kind = case["kind"]
    if kind == "gen":
        return [("c20.gen", [case["n"], [int(case["complete"]), case["script"]]]),
                ("c20.holds", [case["n"], [case["m"], [int(case["complete"]), out["rankings"]]]])]
    if kind == "walk":
        return [("c20.walk", [int(case["complete"]), [case["v"], case["script"]]])]
    if kind == "move":
        return [("c20.move", [case["move"], [case["v"], case["e"]]])]
    return [("c20.holdsU", [case["n"], [case["m"], out["rankings"]]])]


def judge(case, out, answers):
    kind = case["kind"]
    tags = ["kind:" + kind]
    if "err" in out:
        return {"agree": False, "holds": False, "diff": out["err"], "nontrivial": False, "tags": tags + ["impl-error"]}
    if out.get("unavailable"):
        return {"agree": True, "holds": None, "diff": "", "nontrivial": False, "tags": tags + ["internal_tie:unavailable"]}
    diff = []
    holds = True
    nontrivial = False
    if kind == "gen":
        model = [lib.canon_ranking(r) for r in answers[0]]
        if out["script_bad"]:
            diff.append("scripted randint: " + out["script_bad"])
        if out["used"] != 2 * case["steps"] * case["m"]:
            diff.append("number of draws: %d, expected %d" % (out["used"], 2 * case["steps"] * case["m"]))
        if model != out["rankings"]:
            diff.append("rankings: model %s impl %s" % (model, out["rankings"]))
        holds = bool(answers[1])
        if out["empty_exc"]:
            # documented failure only when nothing is left at all
            holds = holds and not case["complete"]
            tags.append("gen:empty-exception")
        else:
            if case["complete"] and not (out["is_complete"] and out["nb_rankings"] == case["m"]
                                         and out["nb_elements"] == case["n"]):
                holds = False
            if not out["types_ok"]:
                holds = False
        tags.append("gen:complete" if case["complete"] else "gen:incomplete")
        moves = set(a for r in case["script"] for _, a in r)
        nontrivial = len(moves) >= 4
    elif kind == "walk":
        states, dense = answers[0]
        if states != out["states"]:
            k = next((i for i, (a, b) in enumerate(zip(states, out["states"])) if a != b), -1)
            diff.append("step %d: model %s impl %s (draw %s)" % (k, states[k], out["states"][k], case["script"][k]))
        if not out["missing_in_step"]:
            diff.append("missing set out of step with the vector")
        # density of the implementation's own states
        holds = all(_dense(s) for s in out["states"])
        moves = set(a for _, a in case["script"])
        nontrivial = len(moves) >= 4 and len(set(map(tuple, out["states"]))) >= 3
        for a in moves:
            tags.append("move:%d" % a)
    elif kind == "move":
        v, dense = answers[0]
        if v != out["v"]:
            diff.append("move %d on %s elem %d: model %s impl %s" % (case["move"], case["v"], case["e"], v, out["v"]))
        holds = _dense(out["v"])
        nontrivial = out["v"] != case["v"]
        tags.append("move:%d" % case["move"])
    else:
        holds = bool(answers[0]) and out["is_complete"] and out["without_ties"]
        nontrivial = case["n"] >= 3
    return {"agree": not diff, "holds": holds, "diff": "; ".join(diff), "nontrivial": nontrivial, "tags": tags}


def _dense(v):
    ranked = sorted(set(x for x in v if x != -1))
    return all(x >= -1 for x in v) and ranked == list(range(len(ranked)))
