"""C18 — rankings and datasets survive a round trip through text and files; the parser has no other failure mode."""
import os
import signal
import tempfile
import lib
import common
import dscommon

ID = "C18"
ANCHORS = ["corankco/utils.py", "corankco/ranking.py", "corankco/dataset.py", "corankco/consensus.py"]
RULE = ("kinds: render (ranking over non-negative ints or delimiter-free non-integer strings, rendered in brace / bracket "
        "notation with whitespace padding, a name prefix and any member order -> Ranking.from_string), random (strings over "
        "the format alphabet `[]{},:` + digits, letters, blanks, tabs, newlines, also mutated renderings -> the three parsers, "
        "under a 2 s alarm), file (dataset written to a fresh file and read back, incl. empty rankings, `%` comment lines, through "
        "every reader of the API: get_rankings_from_file, Dataset.from_file / get_dataset_from_file / get_datasets_from_folder, "
        "Consensus.get_consensus_from_file, Ranking.from_file); "
        "compared with the model: value or exception class, rendered text, file content; predicate: round trip gives an equal "
        "ranking / dataset, any other text is parsed or raises ValueError only; non-trivial = >= 2 buckets with a "
        "multi-member bucket and noise, or a random text that parses; distinct by JSON")
TRUSTED = common.TRUSTED_BASE + ["hand translation of utils.py:10-105, ranking.py:43-68 and of the str primitives "
                                 "(find / rfind / slicing / strip / split) used there", "the file system"]
ASSUMPTIONS = ["texts over ASCII plus a few non-ASCII letters and non-decimal digits (² ³ ①); decimal digits of other scripts, "
               "which int() accepts, and non-ASCII white space are outside the generators (the model's isDigit / strip are ASCII)"]
ALPHA = list("[]{},: \t\n") + list("0123456789") + list("abcxyz_-+%") + ["[", "]", "{", "}", ","] * 2


def budget(tier):
    return 20000 if tier == "quick" else 200000


def _readable_as_int(s):
    try:
        int(s)
        return True
    except ValueError:
        return False


def safe_name(rng):
    while True:
        k = rng.randint(1, 4)
        # one name in four may hold non-ASCII characters, among them "digits" that str.isdigit() accepts but int() refuses
        alphabet = "abcxyz019 _-." if rng.random() < 0.75 else "ab01²³①é "
        s = "".join(rng.choice(alphabet) for _ in range(k)).strip()
        if s and not _readable_as_int(s):
            return s


def gen_ranking(rng, kind):
    n = rng.randint(1, 6)
    if rng.random() < 0.03:
        n = rng.randint(12, 30)   # a few long rankings
    if kind == "int":
        els = rng.sample(range(0, 60), n)
    else:
        els = []
        while len(els) < n:
            s = safe_name(rng)
            if s not in els:
                els.append(s)
    return lib.gen_ranking(rng, els, rng.choice([0.0, 0.4, 0.8]), "complete")


def render(rng, r, brackets, canonical=True):
    """the textual form str(ranking) produces (`[{a, b}, {c}]`), in brace or bracket notation; with canonical=False
    extra blanks are put around members and buckets (beyond the property: used for the random stream only)"""
    o, c = ("[", "]") if brackets else ("{", "}")
    if canonical:
        return "[" + ", ".join(o + ", ".join(str(e) for e in b) + c for b in r) + "]"
    pad = lambda: rng.choice(["", "", " ", "  ", "\t"])  # noqa: E731
    bs = []
    for b in r:
        bs.append(pad() + o + pad() + ("," + pad()).join(pad() + str(e) + pad() for e in b) + c + pad())
    return "[" + ",".join(bs) + "]"


def gen(rng, index, tier):
    kind = rng.choice(["render", "render", "random", "random", "random", "file"])
    if kind == "render":
        nk = rng.choice(["int", "str"])
        r = gen_ranking(rng, nk)
        text = render(rng, r, rng.random() < 0.5)
        if rng.random() < 0.4:
            text = rng.choice(["r1", "ranking 3", "x"]) + rng.choice([":", " : ", ": "]) + text
        text = rng.choice(["", " ", "\n", "\t "]) + text + rng.choice(["", " ", "\n", " \n"])
        return {"kind": kind, "ranking": r, "names": nk, "text": text}
    if kind == "random":
        if rng.random() < 0.5:
            text = "".join(rng.choice(ALPHA) for _ in range(rng.randint(0, 24)))
        else:
            r = gen_ranking(rng, rng.choice(["int", "str"]))
            text = list(render(rng, r, rng.random() < 0.5, canonical=rng.random() < 0.3))
            for _ in range(rng.randint(1, 3)):
                op = rng.choice(["del", "ins", "sub", "dup"])
                if not text:
                    break
                i = rng.randrange(len(text))
                if op == "del":
                    del text[i]
                elif op == "ins":
                    text.insert(i, rng.choice(ALPHA))
                elif op == "sub":
                    text[i] = rng.choice(ALPHA)
                else:
                    text.insert(i, text[i])
            text = "".join(text)
        return {"kind": kind, "text": text}
    nk = rng.choice(["int", "int", "str"])
    n = rng.randint(1, 5)
    els = rng.sample(range(0, 40), n) if nk == "int" else []
    while nk == "str" and len(els) < n:
        s = safe_name(rng)
        if s not in els:
            els.append(s)
    raw = [lib.gen_ranking(rng, els, rng.choice([0.0, 0.5]), rng.choice(["complete", "incomplete", "incomplete", "empty"]))
           for _ in range(rng.randint(1, 5))]
    if not any(raw):
        raw.append(lib.gen_ranking(rng, els, 0.3, "complete"))
    return {"kind": "file", "raw": raw, "names": nk}


def fixed_cases(tier):
    return [{"kind": "file", "raw": [[[1], [2]], [], [[2], [1]]], "names": "int"}]


class _Timeout(Exception):
    pass


def _alarm(signum, frame):
    raise _Timeout()


def _outcome(fn, enc):
    old = signal.signal(signal.SIGALRM, _alarm)
    signal.alarm(2)
    try:
        return [0, enc(fn())]
    except ValueError:
        return [1]
    except _Timeout:
        return ["timeout"]
    except Exception as exc:  # noqa: BLE001
        return ["other:" + type(exc).__name__]
    finally:
        signal.alarm(0)
        signal.signal(signal.SIGALRM, old)


def _enc_buckets(bs):
    return [[dscommon.enc_elem(e) for e in b] for b in bs]


def impl(case):
    import contextlib
    import io
    with contextlib.redirect_stdout(io.StringIO()):   # the parser prints the offending text before raising
        return _impl(case)


def _impl(case):
    from corankco.ranking import Ranking
    from corankco.dataset import Dataset
    from corankco import utils
    try:
        if case["kind"] in ("render", "random"):
            t = case["text"]
            out = {"from": _outcome(lambda: Ranking.from_string(t), lambda r: _enc_buckets(r.buckets)),
                   "str": _outcome(lambda: utils.parse_ranking_with_ties_of_str(t), _enc_buckets),
                   "int": _outcome(lambda: utils.parse_ranking_with_ties_of_int(t), _enc_buckets)}
            if case["kind"] == "render":
                r = lib.make_ranking(case["ranking"])
                out["orig"] = _enc_buckets(r.buckets)
                # str(ranking) prints set(bucket), a copy whose iteration order may differ from the bucket's own
                out["orig_for_str"] = _enc_buckets([list(set(b)) for b in r.buckets])
                out["text_of_orig"] = [ord(c) for c in str(r)]
                parsed = None
                try:
                    parsed = Ranking.from_string(t)
                except Exception:  # noqa: BLE001
                    pass
                out["roundtrip_equal"] = bool(parsed is not None and parsed == r)
                try:
                    out["str_roundtrip_equal"] = bool(Ranking.from_string(str(r)) == r)
                except Exception:  # noqa: BLE001
                    out["str_roundtrip_equal"] = False
            return out
        ds = lib.make_dataset(case["raw"])
        d = tempfile.mkdtemp(prefix="c18_")
        path = os.path.join(d, "data.txt")
        try:
            ds.write(path)
            content = open(path, encoding="utf-8").read()
            back = _outcome(lambda: utils.get_rankings_from_file(path), lambda rs: [_enc_buckets(r) for r in rs])
            try:
                ds2 = Dataset.from_file(path)
                equal = bool(ds2 == ds)
            except Exception as exc:  # noqa: BLE001
                equal = "err:" + type(exc).__name__
            # a commented / blank-line variant of the same file
            path2 = os.path.join(d, "data2.txt")
            with open(path2, "w", encoding="utf-8") as f:
                f.write("% comment\n\n" + content + "   \n")
            try:
                equal2 = bool(Dataset.from_file(path2) == ds)
            except Exception as exc:  # noqa: BLE001
                equal2 = "err:" + type(exc).__name__
            # the other readers of the API: static reader, folder reader, consensus reader, one-ranking file
            others = {}
            try:
                from corankco.consensus import Consensus
                d1 = Dataset.get_dataset_from_file(path)
                others["get_dataset_from_file"] = bool(d1 == ds) and d1.name == "data.txt" and ds2.name == "data.txt"
                os.remove(path2)
                folder = Dataset.get_datasets_from_folder(d)
                others["get_datasets_from_folder"] = len(folder) == 1 and bool(folder[0] == ds) and folder[0].name == "data.txt"
                cons = Consensus.get_consensus_from_file(path)
                others["get_consensus_from_file"] = bool(Dataset(cons.consensus_rankings) == ds)
                path3 = os.path.join(d, "one.txt")
                first = ds.rankings[0]
                with open(path3, "w", encoding="utf-8") as f:
                    f.write(str(first))
                others["Ranking.from_file"] = bool(Ranking.from_file(path3) == first) if len(first) > 0 else True
            except Exception as exc:  # noqa: BLE001
                others["err"] = type(exc).__name__ + ":" + str(exc)[:100]
        finally:
            for p in os.listdir(d):
                os.remove(os.path.join(d, p))
            os.rmdir(d)
        return {"obs": [_enc_buckets(r.buckets) for r in ds.rankings], "content": [ord(c) for c in content], "back": back,
                "equal": equal, "equal_with_comments": equal2, "others": others}
    except Exception as exc:  # noqa: BLE001
        return {"err": "other:" + type(exc).__name__ + ":" + str(exc)[:200]}


def ops(case, out):
    if "err" in out:
        return []
    if case["kind"] in ("render", "random"):
        codes = [ord(c) for c in case["text"]]
        res = [("parse.from", codes), ("parse.str", codes), ("parse.int", codes)]
        if case["kind"] == "render":
            res.append(("render", out["orig_for_str"]))
        return res
    return [("file.write", out["obs"]), ("file.read", out["content"])]


def _canon(res):
    if res[0] == 0:
        return [0, [sorted(b, key=dscommon.key) for b in res[1]]]
    return res


def judge(case, out, answers):
    tags = ["kind:" + case["kind"]]
    if "err" in out:
        return {"agree": False, "holds": False, "diff": out["err"], "nontrivial": False, "tags": tags + ["impl-error"]}
    diff = []
    holds = True
    nontrivial = False
    if case["kind"] in ("render", "random"):
        for k, name in enumerate(["from", "str", "int"]):
            if _canon(answers[k]) != _canon(out[name]):
                diff.append("%s: model %s impl %s" % (name, answers[k], out[name]))
            if out[name][0] not in (0, 1):
                holds = False
                diff.append("%s parser: failure mode other than ValueError: %s" % (name, out[name][0]))
        tags.append("from:" + {0: "parsed", 1: "ValueError"}.get(out["from"][0], str(out["from"][0])))
        if case["kind"] == "render":
            if answers[3][0] != out["text_of_orig"]:
                diff.append("str(ranking): model %r impl %r" % ("".join(map(chr, answers[3][0])), "".join(map(chr, out["text_of_orig"]))))
            if not out["roundtrip_equal"] or not out["str_roundtrip_equal"]:
                holds = False
                diff.append("round trip does not give an equal ranking")
            tags.append("names:" + case["names"])
            nontrivial = len(case["ranking"]) >= 2 and any(len(b) > 1 for b in case["ranking"]) and case["text"].strip() != case["text"]
        else:
            nontrivial = out["from"][0] == 0 and len(case["text"]) >= 4
    else:
        text = answers[0]
        if text != out["content"]:
            diff.append("file content: model %r impl %r" % ("".join(map(chr, text)), "".join(map(chr, out["content"]))))
        mback = answers[1]
        ib = out["back"]
        mb = [0, [[sorted(b, key=dscommon.key) for b in r] for r in mback[1]]] if mback[0] == 0 else mback
        ibc = [0, [[sorted(b, key=dscommon.key) for b in r] for r in ib[1]]] if ib[0] == 0 else ib
        if mb != ibc:
            diff.append("get_rankings_from_file: model %s impl %s" % (mb, ibc))
        if out["equal"] is not True:
            holds = False
            diff.append("file round trip: read-back dataset equal = %s" % (out["equal"],))
        if out["equal"] is True:
            for name, ok in out.get("others", {}).items():
                if ok is not True:
                    holds = False
                    diff.append("file round trip through %s: %s" % (name, ok))
        tags.append("with-comment-and-blank-lines-equal:%s" % out["equal_with_comments"])  # observation only
        if any(len(r) == 0 for r in case["raw"]):
            tags.append("has-empty-ranking")
        tags.append("names:" + case["names"])
        nontrivial = len(case["raw"]) >= 2
    return {"agree": not [d for d in diff if not d.startswith("round trip") and not d.startswith("file round trip")],
            "holds": holds, "diff": "; ".join(diff)[:2000], "nontrivial": nontrivial, "tags": tags}
