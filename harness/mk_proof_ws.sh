#!/bin/bash
# usage: mk_proof_ws.sh <name> : scratch copy of the lake project (with build output) for a proof worker
set -e
mkdir -p /tmp/proofs
rm -rf "/tmp/proofs/$1"
mkdir -p "/tmp/proofs/$1"
cp -r /verif/lean "/tmp/proofs/$1/lean"
echo "/tmp/proofs/$1/lean"
