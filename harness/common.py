"""helpers shared by the per-property harness modules that run algorithms on (dataset, scheme) cases"""
import lib

TRUSTED_BASE = ["Lean 4 kernel", "axioms: propext, Classical.choice, Quot.sound (audited per theorem)",
                "harness encoding / Lean driver parser", "float64 exact on the dyadic penalty grid",
                "CPython set/dict iteration order (observed and passed to the model)"]


def prep(case):
    """-> (ds, sch, coder, obs, scale)"""
    coder = lib.Coder()
    ds = lib.make_dataset(case["dataset"])
    sch = lib.make_scheme(case["scheme"])
    obs = lib.observe_dataset(ds, coder)
    return ds, sch, coder, obs, case["scheme"]["scale"]


def obs_rankings(rankings, coder):
    return [lib.canon_ranking(lib.observe_ranking(r, coder)) for r in rankings]


def canon_list(rs):
    return [lib.canon_ranking(r) for r in rs]


def family_scheme(rng, which=None):
    """schemes around the four Borda families: members, multiples, near-misses"""
    which = which or rng.choice(["unifying", "unifying_half", "induced", "induced_half", "pseudo", "extended",
                                 "near", "near", "grid"])
    if which in lib.PRESETS:
        b, t, s = lib.PRESETS[which]
        k = rng.choice([1, 1, 2, 3, 5])
        return {"b": [k * x for x in b], "t": [k * x for x in t], "scale": s * rng.choice([1, 2]), "family": which}
    if which == "near":
        base = rng.choice(["unifying", "unifying_half", "induced", "induced_half"])
        b, t, s = lib.PRESETS[base]
        b, t = list(b), list(t)
        k = rng.choice([1, 2, 3])
        b, t = [k * x for x in b], [k * x for x in t]
        i = rng.choice(["b2", "b5", "b4", "t01", "t34", "t5", "tscale"])
        if i == "b2":
            b[2] += 1
        elif i == "b5":
            b[5] += 1
        elif i == "b4":
            b[4] += 1
        elif i == "t01":
            t[0] += 1
            t[1] += 1
        elif i == "t34":
            t[3] += 1
            t[4] += 1
        elif i == "t5":
            t[5] += 1
        else:
            t = [2 * x for x in t]
        return {"b": b, "t": t, "scale": s, "family": "near:" + base + ":" + i}
    return lib.gen_scheme(rng, family="grid")


def shrink_dataset_case(case, keys=("dataset",)):
    raw = case["dataset"]
    for i in range(len(raw)):
        if len(raw) > 1:
            c = dict(case)
            c["dataset"] = raw[:i] + raw[i + 1:]
            if any(c["dataset"]):
                yield c
    for e in lib.dataset_elems(raw):
        nd = [[b for b in [[x for x in b if x != e] for b in r] if b] for r in raw]
        if any(nd):
            c = dict(case)
            c["dataset"] = nd
            yield c
    for ri, r in enumerate(raw):
        for bi, b in enumerate(r):
            if len(b) > 1:
                c = dict(case)
                nr = r[:bi] + [[b[0]], b[1:]] + r[bi + 1:]
                c["dataset"] = raw[:ri] + [nr] + raw[ri + 1:]
                yield c


def base_tags(case):
    return ["family:" + case["meta"]["family"], "kind:" + case["meta"]["kind"], "scheme:" + case["scheme"]["family"].split(":")[0]] + \
        (["size:big"] if case["meta"].get("big") else [])


# ----------------------------------------------------------------------------------------------
# datasets "with a past": the same objects were queried, then modified in place through the public mutators,
# before the call under test (stale caches / memoised values only show on such histories)
# ----------------------------------------------------------------------------------------------
def gen_past(rng, raw):
    els = lib.dataset_elems(raw)
    ops = [["query"]]
    k = rng.choice(["remove", "remove", "remove_empty", "rate"])
    if k == "remove":
        ops.append(["remove", [e for e in els if rng.random() < 0.3]])
    elif k == "remove_empty":
        ops.append(["remove_empty"])
    else:
        ops.append(["rate", rng.choice([2, 3, 4, 5]), 8])
    return ops


def apply_past(ds, sch, ops, extra_query=None):
    """applies the past to the SAME dataset object; a mutator that raises leaves the dataset as it was"""
    from corankco.algorithms.borda.borda import BordaCount
    from corankco.scoringscheme import ScoringScheme
    for op in ops:
        try:
            if op[0] == "query":
                ds.unified_rankings()
                ds.unified_dataset()
                ds.get_positions()
                ds.get_bucket_ids()
                BordaCount().compute_consensus_rankings(ds, ScoringScheme.get_unifying_scoring_scheme())
                bool(ds == ds)
                if extra_query is not None:
                    extra_query()
            elif op[0] == "remove":
                ds.remove_elements(set(lib.conv_like_dataset(ds, [op[1]])[0]))
            elif op[0] == "remove_empty":
                ds.remove_empty_rankings()
            elif op[0] == "rate":
                ds.remove_elements_rate_presence_lower_than(op[1] / op[2])
        except Exception:  # noqa: BLE001
            pass
