"""Regenerate section 10.7 of DESIGN.md (theorem inventory) from lean/Corankco/Props/.

usage: python3 harness/mk_thm_table.py   (rewrites the block between '### 10.7' and the following rule line)
"""
import os
import re
import sys

VERIF = os.path.dirname(os.path.dirname(os.path.abspath(__file__)))
PROPS = os.path.join(VERIF, "lean", "Corankco", "Props")


def theorems(path):
    src = open(path).read()
    # drop block comments (not nested deeper than the docstring/comment forms the files use)
    src = re.sub(r"/-.*?-/", "", src, flags=re.S)
    return re.findall(r"^\s*(?:private\s+|protected\s+)?theorem\s+([^\s:({\[]+)", src, flags=re.M)


def main():
    by_prop = {}
    for name in sorted(os.listdir(PROPS)):
        m = re.match(r"(C\d\d)[a-z]?\.lean$", name)
        if not m:
            continue
        by_prop.setdefault(m.group(1), []).append(name)
    lines = ["### 10.7 Theorem inventory (generated from `lean/Corankco/Props/` by `harness/mk_thm_table.py`)", "",
             "| property | files | theorems |", "|---|---|---|"]
    total = 0
    for pid in sorted(by_prop):
        ths = []
        for f in by_prop[pid]:
            ths.extend(theorems(os.path.join(PROPS, f)))
        total += len(ths)
        lines.append("| %s | %s | %s |" % (pid, ", ".join(by_prop[pid]), ", ".join("`%s`" % t for t in ths)))
    lines += ["", "%d theorems in total; every one is audited with `#print axioms` on each run of its property's check." % total, ""]
    design = os.path.join(VERIF, "DESIGN.md")
    text = open(design).read()
    start = text.index("### 10.7 Theorem inventory")
    end = text.index("\n-----", start)
    text = text[:start] + "\n".join(lines) + text[end:]
    open(design, "w").write(text)
    print("10.7 rewritten: %d theorems" % total)


if __name__ == "__main__":
    sys.exit(main())
