"""running the exact algorithms / ParCons with ILP row capture (C03, C04, C05, C06, C14)"""
import lib
import common
import partcommon


def parse_var(name):
    kind, i, j = name.split("_")
    return [0 if kind == "x" else 1, int(i), int(j)]


def canon_row(coeffs, sense, rhs, scale=1):
    """coeffs: list of (varname, coef). sense 'E'/'L'. -> canonical JSON-able row"""
    acc = {}
    for name, c in coeffs:
        acc[name] = acc.get(name, 0) + c
    items = sorted((parse_var(n), lib.to_int(c, 1)) for n, c in acc.items() if c != 0)
    return [[[v, c] for v, c in items], 0 if sense == "E" else 1, lib.to_int(rhs, 1)]


class PulpCapture:
    """records every LpProblem that gets solved, without touching the repository"""

    def __enter__(self):
        import pulp
        self.pulp = pulp
        self.orig = pulp.LpProblem.solve
        self.problems = []
        cap = self

        def solve(prob, *a, **k):
            cap.problems.append(prob)
            return cap.orig(prob, *a, **k)
        pulp.LpProblem.solve = solve
        return self

    def __exit__(self, *a):
        self.pulp.LpProblem.solve = self.orig

    def rows(self, prob, scale):
        rows = []
        for _, c in prob.constraints.items():
            sense = {0: "E", -1: "L", 1: "G"}[c.sense]
            rows.append(canon_row([(v.name, coef) for v, coef in c.items()], sense, -c.constant))
        obj = sorted((parse_var(v.name), lib.to_int(coef, scale)) for v, coef in prob.objective.items() if coef != 0)
        return rows, [[v, c] for v, c in obj]


def standin_rows(problem, scale):
    rows = [canon_row(list(zip(names, coefs)), s, b) for names, coefs, s, b in problem["rows"]]
    obj = sorted((parse_var(n), lib.to_int(c, scale)) for n, c in zip(problem["names"], problem["obj"]) if c != 0)
    return rows, [[v, c] for v, c in obj]


def uniq_rows(rows):
    seen = {}
    for r in rows:
        seen[lib.jdump(r)] = r
    return [seen[k] for k in sorted(seen)]


def make_exact(config):
    """config names: selector-opt, selector-noopt, pulp, cplex-noopt, cplex-opt, paperoptim1"""
    from corankco.algorithms.exact.exactalgorithm import ExactAlgorithm
    from corankco.algorithms.exact.exactalgorithmpulp import ExactAlgorithmPulp
    from corankco.algorithms.exact.exactalgorithmcplex import ExactAlgorithmCplex
    from corankco.algorithms.exact.exactalgorithmcplexforpaperoptim1 import ExactAlgorithmCplexForPaperOptim1
    if config == "selector-opt":
        return ExactAlgorithm(optimize=True)
    if config == "selector-noopt":
        return ExactAlgorithm(optimize=False)
    if config == "pulp":
        return ExactAlgorithmPulp()
    if config == "cplex-noopt":
        return ExactAlgorithmCplex(optimize=False)
    if config == "cplex-opt":
        return ExactAlgorithmCplex(optimize=True)
    if config == "paperoptim1":
        return ExactAlgorithmCplexForPaperOptim1()
    raise ValueError(config)


def run_alg(alg, ds, sch, amo, coder, scale):
    """-> dict with rankings (observed), rankings_ids, score_before, score, flag, or err"""
    from corankco.consensus import ConsensusFeature
    ids = partcommon.ids_of(ds)
    try:
        cons = alg.compute_consensus_rankings(ds, sch, amo)
    except Exception as exc:  # noqa: BLE001
        return {"run_err": type(exc).__name__ + ":" + str(exc)[:120]}
    out = {"rankings": [lib.observe_ranking(r, coder) for r in cons.consensus_rankings]}
    try:
        out["rankings_ids"] = [[sorted(ids[e] for e in b) for b in r.buckets] for r in cons.consensus_rankings]
    except KeyError:
        out["rankings_ids"] = None
    raw = cons.features.get(ConsensusFeature.KEMENY_SCORE)
    out["score_before"] = None if raw is None else lib.to_int(raw, scale)
    try:
        sc = cons.kemeny_score
        out["score"] = None if sc is None else lib.to_int(sc, scale)
    except Exception as exc:  # noqa: BLE001
        out["score"] = "err:" + type(exc).__name__
    out["flag"] = bool(cons.features.get(ConsensusFeature.NECESSARILY_OPTIMAL))
    wp = cons.features.get(ConsensusFeature.WEAK_PARTITIONING)
    if wp is not None:
        out["weak_partition"] = [sorted(ids[e] for e in g) for g in wp]
    return out
