"""Record the AST fingerprints of the anchored source files as the drift baseline (run after fix commits)."""
import importlib, json, os, sys
sys.path.insert(0, os.path.dirname(os.path.abspath(__file__)))
import lib
res = {}
for name in sorted(os.listdir(os.path.join(lib.VERIF, "harness", "props"))):
    if name.startswith("c") and name.endswith(".py"):
        m = importlib.import_module("props." + name[:-3])
        res[m.ID] = {f: lib.fingerprint(f) for f in m.ANCHORS}
json.dump(res, open(os.path.join(lib.VERIF, "harness", "anchors.json"), "w"), indent=1, sort_keys=True)
print("anchors for", sorted(res))
