"""Proof audit for one property (DESIGN 3.5 step 1).

* every `theorem` declared in lean/Corankco/Props/<Cxx>.lean is an obligation;
* it is discharged when the library built and `#print axioms` lists only admissible axioms;
* the Lean sources are grepped for sorry / admit / axiom / native_decide / bv_decide / implemented_by /
  unsafe / maxHeartbeats 0 outside comments.
Writes a JSON summary to the path given as argv[2]."""
import json
import os
import re
import subprocess
import sys

VERIF = os.path.dirname(os.path.dirname(os.path.abspath(__file__)))
LEAN = os.path.join(VERIF, "lean")
ADMISSIBLE = {"propext", "Classical.choice", "Quot.sound"}
FORBIDDEN = re.compile(r"\bsorry\b|\badmit\b|^\s*axiom\s|native_decide|bv_decide|implemented_by|\bunsafe\s|maxHeartbeats\s+0\b")


def strip_comments(src):
    out = []
    i = 0
    depth = 0
    while i < len(src):
        if src.startswith("/-", i):
            depth += 1
            i += 2
        elif depth and src.startswith("-/", i):
            depth -= 1
            i += 2
        elif depth:
            if src[i] == "\n":
                out.append("\n")
            i += 1
        elif src.startswith("--", i):
            while i < len(src) and src[i] != "\n":
                i += 1
        else:
            out.append(src[i])
            i += 1
    return "".join(out)


def grep_forbidden():
    hits = []
    for root, _, files in os.walk(os.path.join(LEAN, "Corankco")):
        for name in files:
            if name.endswith(".lean"):
                p = os.path.join(root, name)
                for ln, line in enumerate(strip_comments(open(p).read()).split("\n"), 1):
                    if FORBIDDEN.search(line):
                        hits.append("%s:%d: %s" % (os.path.relpath(p, LEAN), ln, line.strip()[:120]))
    p = os.path.join(LEAN, "Main.lean")
    for ln, line in enumerate(strip_comments(open(p).read()).split("\n"), 1):
        if FORBIDDEN.search(line):
            hits.append("Main.lean:%d: %s" % (ln, line.strip()[:120]))
    return hits


def main():
    pid = sys.argv[1]
    outp = sys.argv[2]
    thorough = len(sys.argv) > 3 and sys.argv[3] == "thorough"
    pdir = os.path.join(LEAN, "Corankco", "Props")
    files = sorted(f for f in os.listdir(pdir) if re.fullmatch(re.escape(pid) + r"[a-z]?\.lean", f)) \
        if os.path.isdir(pdir) else []
    res = {"obligations": 0, "discharged": 0, "theorems": {}, "problems": [], "checker_cmd": "", "files": files}
    if not files:
        res["problems"].append("no Props/%s*.lean" % pid)
        json.dump(res, open(outp, "w"))
        return
    names = []
    for fname in files:
        src = strip_comments(open(os.path.join(pdir, fname)).read())
        stack = []
        for line in src.split("\n"):
            m = re.match(r"^\s*namespace\s+(\S+)", line)
            if m:
                stack.append(m.group(1))
                continue
            m = re.match(r"^\s*end\s+(\S+)\s*$", line)
            if m and stack and stack[-1] == m.group(1):
                stack.pop()
                continue
            m = re.match(r"^\s*(?:@\[[^\]]*\]\s*)?(?:private\s+|protected\s+)?theorem\s+(\S+)", line)
            if m:
                names.append(".".join(stack + [m.group(1)]))
    res["obligations"] = len(names)
    os.makedirs(os.path.join(LEAN, ".lake", "audit"), exist_ok=True)
    af = os.path.join(LEAN, ".lake", "audit", pid + ".lean")
    with open(af, "w") as f:
        for fname in files:
            f.write("import Corankco.Props.%s\n" % fname[:-5])
        for n in names:
            f.write("#print axioms %s\n" % n)
    prefix = ""
    cmd = ["lake", "env", "lean", af]
    res["checker_cmd"] = "cd lean && lake build && lake env lean .lake/audit/%s.lean  (#print axioms per theorem)" % pid
    proc = subprocess.run(cmd, cwd=LEAN, stdout=subprocess.PIPE, stderr=subprocess.STDOUT, timeout=1800)
    text = proc.stdout.decode()
    if proc.returncode != 0:
        res["problems"].append("audit file failed: " + text[-1500:])
    flat = re.sub(r"\s+", " ", text)
    for n in names:
        full = prefix + n
        m = re.search(r"'%s' depends on axioms: \[([^\]]*)\]" % re.escape(full), flat)
        if m:
            ax = [a.strip() for a in m.group(1).split(",") if a.strip()]
        elif re.search(r"'%s' does not depend on any axioms" % re.escape(full), flat):
            ax = []
        else:
            res["theorems"][n] = "not found in audit output"
            res["problems"].append("theorem %s not audited" % n)
            continue
        res["theorems"][n] = ax
        if set(ax) <= ADMISSIBLE:
            res["discharged"] += 1
        else:
            res["problems"].append("theorem %s uses inadmissible axioms %s" % (n, ax))
    hits = grep_forbidden()
    if hits:
        res["problems"].append("forbidden tokens: " + "; ".join(hits[:10]))
    if thorough:
        lc = subprocess.run(["lake", "env", "leanchecker"] + ["Corankco.Props." + f[:-5] for f in files], cwd=LEAN,
                            stdout=subprocess.PIPE, stderr=subprocess.STDOUT, timeout=3600)
        res["leanchecker_exit"] = lc.returncode
        res["checker_cmd"] += " ; lake env leanchecker Corankco.Props.%s" % pid
        if lc.returncode != 0:
            res["problems"].append("leanchecker failed: " + lc.stdout.decode()[-800:])
    json.dump(res, open(outp, "w"), indent=1)


if __name__ == "__main__":
    main()
