"""BioConsert runs shared by the C08 / C09 (and C03 / C04) harness modules"""
import lib
import common

STARTER_CONFIGS = ["default", "default", "bioco", "borda", "copeland", "pickaperm", "kwik", "borda+copeland",
                   "copeland+kwik+borda"]


REFUSALS = ("ScoringSchemeNotHandledException", "InompleteRankingsIncompatibleWithScoringSchemeException")


def make_starters(names):
    from corankco.algorithms.borda.borda import BordaCount
    from corankco.algorithms.copeland.copeland import CopelandMethod
    from corankco.algorithms.pickaperm.pickaperm import PickAPerm
    from corankco.algorithms.kwiksort.kwiksortrandom import KwikSortRandom
    table = {"borda": BordaCount, "copeland": CopelandMethod, "pickaperm": PickAPerm, "kwik": KwikSortRandom}
    return [table[n]() for n in names]


def make_bio(config):
    from corankco.algorithms.bioconsert.bioconsert import BioConsert
    from corankco.algorithms.bioconsert.bioco import BioCo
    if config == "default":
        return BioConsert(), []
    if config == "bioco":
        return BioCo(), ["borda"]
    names = config.split("+")
    return BioConsert(starting_algorithms=make_starters(names)), names


class DeterministicChoice:
    """KwikSortRandom made repeatable: `choice` always takes the first remaining element"""

    def __enter__(self):
        import corankco.algorithms.kwiksort.kwiksortrandom as kq
        self.mod = kq
        self.orig = kq.choice
        kq.choice = lambda seq: seq[0]
        return self

    def __exit__(self, *a):
        self.mod.choice = self.orig


def table_tree(tbl, scale):
    return [[[lib.to_int(c[0], scale), [lib.to_int(c[1], scale), lib.to_int(c[2], scale)]] for c in row]
            for row in tbl.tolist()]


def table_is_int(tree):
    return all(isinstance(c[0], int) and isinstance(c[1][0], int) and isinstance(c[1][1], int)
               for row in tree for c in row)


def run_bio(case):
    """full BioConsert run. -> dict(obs, rankings | err, score, starters_cons, dep (impl departure rows))"""
    from corankco.consensus import ConsensusFeature
    ds, sch, coder, obs, s = common.prep(case)
    out = {"obs": obs}
    with DeterministicChoice():
        alg, names = make_bio(case["config"])
        starters_cons = []
        starter_err = None
        for a in make_starters(names):
            try:
                c = a.compute_consensus_rankings(ds, sch, True)
                starters_cons.append(lib.observe_ranking(c.consensus_rankings[0], coder))
            except Exception as exc:  # noqa: BLE001
                starter_err = type(exc).__name__
        out["starters_cons"] = starters_cons
        out["starter_err"] = starter_err
        try:
            dep = alg._departure_rankings(ds, sch)
            out["dep"] = [[int(x) for x in row] for row in dep.tolist()]
        except (AttributeError, TypeError):
            out["dep"] = "unavailable"   # private helper renamed / re-shaped: this white-box comparison is skipped
        except Exception as exc:  # noqa: BLE001
            out["dep"] = "err:" + type(exc).__name__
        try:
            cons = alg.compute_consensus_rankings(ds, sch, case["amo"])
        except Exception as exc:  # noqa: BLE001
            out["run_err"] = type(exc).__name__ + ":" + str(exc)[:100]
            return out
    out["rankings"] = [lib.observe_ranking(r, coder) for r in cons.consensus_rankings]
    out["score_before"] = lib.to_int(cons.features[ConsensusFeature.KEMENY_SCORE], s)
    out["score_before_tol"] = lib.to_int_tol(cons.features[ConsensusFeature.KEMENY_SCORE], s)
    out["score"] = lib.to_int(cons.kemeny_score, s)
    return out
