#!/bin/bash
# usage: harness/seedmatrix.sh <out.tsv> <VERIF_SEED> [<VERIF_SEED> ...]
# every seeded change of /verif/seeded/sNN_Cxx is applied to a scratch worktree of /repo's HEAD and the quick check of ITS
# property is run once per given VERIF_SEED (VERIF_REPO points at the worktree; /repo itself is not touched).
# SHARD=i NSHARDS=n in the environment: only every n-th seeded change (for parallel runs).
# ONLY=<regex>: only the seeded changes whose directory matches.
# One line per (seeded change, seed): id, property, seed, outcome (failing-input | no-failing-input-found | MISSED | n/a).
OUT="$1"; shift
SEEDS="$@"
SHARD=${SHARD:-0}; NSHARDS=${NSHARDS:-1}
WT=/tmp/seedmatrix_wt_$SHARD
git -C /repo worktree remove --force $WT 2>/dev/null
git -C /repo worktree add -q --detach $WT HEAD || exit 2
cd /verif || exit 2
: > "$OUT"
I=0
for D in seeded/s[0-9][0-9]_C[0-9][0-9]; do
  if [ -n "${ONLY:-}" ] && ! echo "$D" | grep -Eq "$ONLY"; then continue; fi
  I=$((I+1)); [ $((I % NSHARDS)) -eq $SHARD ] || continue
  SID=$(basename $D); P=${SID#*_}
  git -C $WT checkout -q -- . 
  PATCH=$PWD/$D/patch.diff; [ -f $PWD/$D/patch_rebased.diff ] && PATCH=$PWD/$D/patch_rebased.diff
  if ! git -C $WT apply --check $PATCH 2>/dev/null; then
    if ! git -C $WT apply -3 $PATCH >/dev/null 2>&1; then git -C $WT checkout -q -- . ; git -C $WT reset -q --hard; echo -e "$SID\t$P\t-\tn/a (patch does not apply to HEAD)" >> "$OUT"; continue; fi
    git -C $WT reset -q   # keep the working-tree change, drop the index
  else
    git -C $WT apply $PATCH
  fi
  for S in $SEEDS; do
    R=$(VERIF_REPO=$WT VERIF_SEED=$S VERIF_SEARCH_S=60 timeout 1500 ./check $P quick 2>&1 | grep -E "VIOLATION|infrastructure" | head -1)
    if echo "$R" | grep -q "no-failing-input-found"; then O="no-failing-input-found"
    elif echo "$R" | grep -q "VIOLATION"; then O="failing-input"
    elif echo "$R" | grep -q "infrastructure"; then O="infrastructure"
    else O="MISSED"; fi
    echo -e "$SID\t$P\t$S\t$O" >> "$OUT"
  done
done
git -C /repo worktree remove --force $WT; git -C /repo worktree prune
