"""algorithm configurations as nested terms (C03, C04, C14, C15)"""
import lib


def make(term):
    from corankco.algorithms.exact.exactalgorithm import ExactAlgorithm
    from corankco.algorithms.exact.exactalgorithmpulp import ExactAlgorithmPulp
    from corankco.algorithms.exact.exactalgorithmcplex import ExactAlgorithmCplex
    from corankco.algorithms.exact.exactalgorithmcplexforpaperoptim1 import ExactAlgorithmCplexForPaperOptim1
    from corankco.algorithms.parcons.parcons import ParCons
    from corankco.algorithms.bioconsert.bioconsert import BioConsert
    from corankco.algorithms.bioconsert.bioco import BioCo
    from corankco.algorithms.kwiksort.kwiksortrandom import KwikSortRandom
    from corankco.algorithms.borda.borda import BordaCount
    from corankco.algorithms.copeland.copeland import CopelandMethod
    from corankco.algorithms.pickaperm.pickaperm import PickAPerm
    k = term[0]
    if k == "exact":
        return ExactAlgorithm(optimize=bool(term[1]))
    if k == "pulp":
        return ExactAlgorithmPulp()
    if k == "cplex":
        return ExactAlgorithmCplex(optimize=bool(term[1]))
    if k == "paper":
        return ExactAlgorithmCplexForPaperOptim1()
    if k == "parcons":
        return ParCons(auxiliary_algorithm=make(term[1]), bound_for_exact=term[2])
    if k == "bioconsert":
        return BioConsert(starting_algorithms=[make(t) for t in term[1]] if term[1] else None)
    if k == "bioco":
        return BioCo()
    if k == "kwik":
        return KwikSortRandom()
    if k == "borda":
        return BordaCount(use_bucket_id=bool(term[1]))
    if k == "copeland":
        return CopelandMethod()
    if k == "pickaperm":
        return PickAPerm()
    if k == "factory":
        # the selector of algorithm_choice.py: ["factory", enum value, parameter kind, parameter value]
        from corankco.algorithms.algorithm_choice import get_algorithm, Algorithm
        return get_algorithm(Algorithm(term[1]), factory_params(term))
    raise ValueError(term)


def factory_params(term):
    kind, val = term[2], term[3]
    if kind == "none":
        return None
    if kind == "empty":
        return {}
    if kind == "starters":
        return {"starting_algorithms": [make(t) for t in val]}
    if kind == "aux":
        return {"auxiliary_algorithm": make(val)}
    if kind == "bound":
        return {"bound_for_exact": val}
    if kind == "optimize":
        return {"optimize": bool(val)}
    if kind == "bid":
        return {"use_bucket_id": bool(val)}
    raise ValueError(term)


FACTORY_NAMES = ["EXACT", "PARCONS", "BIOCONSERT", "BIOCO", "KWIKSORTRANDOM", "PICKAPERM", "BORDACOUNT", "COPELANDMETHOD"]


def gen_factory(rng):
    """a call of the selector: enum member + parameters its named class accepts"""
    v = rng.randrange(8)
    kinds = {0: ["optimize"], 1: ["aux", "bound"], 2: ["starters"], 6: ["bid"]}.get(v, [])
    kind = rng.choice(["none", "none", "empty"] + kinds + kinds)
    if kind == "starters":
        val = [list(rng.choice(BASE)) for _ in range(rng.choice([0, 1, 2]))]
    elif kind == "aux":
        val = list(rng.choice(BASE[3:] + [["bioconsert", []]]))
    elif kind == "bound":
        val = rng.choice([0, 2, 80])
    elif kind in ("optimize", "bid"):
        val = rng.choice([0, 1])
    else:
        val = None
    return ["factory", v, kind, val]


def term_of_instance(alg):
    """the model's configuration term of an algorithm OBJECT (read from the instance, not from how it was asked for)"""
    from corankco.algorithms.bioconsert.bioco import BioCo
    from corankco.algorithms.bioconsert.bioconsert import BioConsert
    from corankco.algorithms.parcons.parcons import ParCons
    cname = type(alg).__name__
    if isinstance(alg, BioCo):
        return [5]
    if isinstance(alg, BioConsert):
        st = getattr(alg, "_starting_algorithms", None)
        if st is None:
            return None   # private attribute renamed: the configuration cannot be read off the object
        sub = [term_of_instance(a) for a in st]
        return None if any(t is None for t in sub) else [6, sub]
    if isinstance(alg, ParCons):
        aux = getattr(alg, "_auxiliary_alg", None)
        sub = term_of_instance(aux) if aux is not None else None
        return None if sub is None else [7, sub]
    table = {"ExactAlgorithm": [0], "ExactAlgorithmPulp": [0], "ExactAlgorithmCplex": [0],
             "ExactAlgorithmCplexForPaperOptim1": [0], "KwikSortRandom": [1], "CopelandMethod": [2], "BordaCount": [3],
             "PickAPerm": [4]}
    return list(table[cname]) if cname in table else None


def model_term(term):
    k = term[0]
    if k in ("exact", "pulp", "cplex", "paper"):
        return [0]
    if k == "kwik":
        return [1]
    if k == "copeland":
        return [2]
    if k == "borda":
        return [3]
    if k == "pickaperm":
        return [4]
    if k == "bioco":
        return [5]
    if k == "bioconsert":
        return [6, [model_term(t) for t in term[1]]]
    if k == "parcons":
        return [7, model_term(term[1])]
    if k == "factory":
        kind, val = term[2], term[3]
        if kind == "starters":
            return [8, term[1], [[model_term(t) for t in val]]]
        if kind == "aux":
            return [8, term[1], [model_term(val)]]
        return [8, term[1], []]
    raise ValueError(term)


def needs_cplex(term):
    k = term[0]
    if k == "factory":
        return False
    if k in ("cplex", "paper"):
        return True
    if k == "parcons":
        return needs_cplex(term[1])
    if k == "bioconsert":
        return any(needs_cplex(t) for t in term[1])
    return False


def uses_solver(term):
    k = term[0]
    if k == "factory":
        return term[1] in (0, 1) or (term[2] == "starters" and any(uses_solver(t) for t in term[3]))
    if k in ("exact", "pulp", "cplex", "paper", "parcons"):
        return True
    if k == "bioconsert":
        return any(uses_solver(t) for t in term[1])
    return False


def name(term):
    k = term[0]
    if k == "factory":
        return "factory:%s:%s" % (FACTORY_NAMES[term[1]], term[2])
    if k == "bioconsert":
        return "bioconsert[" + ",".join(name(t) for t in term[1]) + "]"
    if k == "parcons":
        return "parcons(%s,%d)" % (name(term[1]), term[2])
    if len(term) > 1:
        return "%s(%s)" % (k, term[1])
    return k


BASE = [["exact", 1], ["exact", 0], ["pulp"], ["kwik"], ["copeland"], ["borda", 0], ["borda", 1], ["pickaperm"], ["bioco"]]
STANDIN_ONLY = [["cplex", 0], ["cplex", 1], ["paper"]]


def gen_config(rng, depth=2, allow_standin=True):
    """random configuration up to the given nesting depth"""
    pool = ["base", "base", "bioconsert", "parcons"] if depth > 0 else ["base"]
    kind = rng.choice(pool)
    if kind == "base":
        c = BASE + (STANDIN_ONLY if allow_standin else [])
        return list(rng.choice(c))
    if kind == "bioconsert":
        k = rng.choice([0, 1, 1, 2, 3])
        return ["bioconsert", [gen_config(rng, depth - 1, allow_standin) for _ in range(k)]]
    return ["parcons", gen_config(rng, depth - 1, allow_standin), rng.choice([0, 2, 80])]


TEN = [["exact", 1], ["exact", 0], ["pulp"], ["parcons", ["bioconsert", []], 80], ["parcons", ["borda", 0], 0],
       ["parcons", ["kwik"], 2], ["bioconsert", []], ["bioconsert", [["borda", 0], ["copeland"]]],
       ["bioconsert", [["kwik"], ["pickaperm"]]], ["bioco"], ["kwik"], ["borda", 0], ["borda", 1], ["copeland"],
       ["pickaperm"]]
TEN_STANDIN = [["exact", 1], ["exact", 0], ["cplex", 0], ["cplex", 1], ["paper"], ["parcons", ["bioconsert", []], 80],
               ["parcons", ["kwik"], 2]]

REFUSALS = ("ScoringSchemeNotHandledException", "InompleteRankingsIncompatibleWithScoringSchemeException")
