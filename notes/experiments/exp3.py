import itertools, random, sys
from corankco import *
from corankco.algorithms.exact.exactalgorithmpulp import ExactAlgorithmPulp
from common import *
def weak_orders(els):
    els=list(els)
    if not els: yield []; return
    # choose first bucket as nonempty subset
    n=len(els)
    for mask in range(1,1<<n):
        first={els[i] for i in range(n) if mask>>i&1}
        rest=[els[i] for i in range(n) if not mask>>i&1]
        for w in weak_orders(rest): yield [first]+w
def optima(d, sc):
    best=None; res=[]
    for w in weak_orders([e.value for e in d.universe]):
        s=naive(Ranking(w), d, sc)
        if best is None or s<best-1e-9: best=s; res=[w]
        elif abs(s-best)<=1e-9: res.append(w)
    return best,res
def consistent(part, w):
    pos={}
    for i,b in enumerate(w):
        for e in b: pos[e]=i
    for i in range(len(part)):
        for j in range(i+1,len(part)):
            for x in part[i]:
                for y in part[j]:
                    if not pos[x.value]<pos[y.value]: return False
    return True
if __name__=='__main__':
    random.seed(int(sys.argv[1]) if len(sys.argv)>1 else 3)
    badfront=0; badcons=0; badsub=0; tot=0; exf=None; exs=None
    for it in range(400):
        d = rand_dataset(random.randint(3,5), random.randint(1,4))
        sc = random.choice(presets)
        best, opts = optima(d, sc)
        pf = OrderedPartition.parfront_partition(d, sc)
        pc = OrderedPartition.parcons_partition(d, sc)
        tot+=1
        if not all(consistent(pf.partition, w) for w in opts):
            badfront+=1; exf=exf or (d,sc,pf,[w for w in opts if not consistent(pf.partition,w)][0])
        if not any(consistent(pc.partition, w) for w in opts):
            badcons+=1
        # ParCons-like: solve each component via pulp on sub problem and concatenate
        res=[]
        for g in pc.partition:
            sub = d.sub_problem_from_elements(g)
            c = ExactAlgorithmPulp().compute_consensus_rankings(sub, sc, True)[0]
            res.extend(c.buckets)
        s = naive(Ranking(res), d, sc)
        if s>best+1e-9:
            badsub+=1; exs=exs or (d,sc,pc,res,s,best)
    print(tot,"parfront bad",badfront,"parcons-partition bad",badcons,"subproblem concat non-optimal",badsub)
    print(exf); print(exs)
