import sys, pulp; sys.path.insert(0,'<dir containing cplex/__init__.py>')
import random
from common import *
from exp3 import weak_orders
random.seed(int(sys.argv[1]) if len(sys.argv)>1 else 1)
sch=[ScoringScheme.get_unifying_scoring_scheme(), ScoringScheme.get_extended_measure_scoring_scheme(), ScoringScheme([[0.,1.,.5,.25,.75,2.],[.5,.5,0.,1.5,1.5,.25]])]
bad={}
for it in range(300):
    n=random.randint(4,6); m=random.randint(2,5)
    # sparse: each ranking sees a random small subset
    rs=[]
    for _ in range(m):
        els=random.sample(range(n), random.randint(1,3)); rs.append(rand_buckets(els,.3))
    try: d=Dataset.from_raw_list(rs)
    except Exception: continue
    sc=random.choice(sch)
    U=[e.value for e in d.universe]
    best=min(naive(Ranking(w),d,sc) for w in weak_orders(U))
    for name,alg in [("exact-opt",ExactAlgorithm(optimize=True)),("parcons",ParCons())]:
        c=alg.compute_consensus_rankings(d,sc,True)
        if abs(naive(c[0],d,sc)-best)>1e-9 and c.necessarily_optimal:
            bad.setdefault(name,[]).append((d,sc,c,naive(c[0],d,sc),best))
for k,v in bad.items(): print(k,len(v),v[0])
print("done")
