import random, sys, copy
from common import *
from corankco.algorithms.exact.exactalgorithmpulp import ExactAlgorithmPulp
random.seed(int(sys.argv[1]) if len(sys.argv)>1 else 1)
def snap(d,sc):
    return (repr([[sorted((type(e.value).__name__,e.value) for e in b) for b in r] for r in d]), repr([sorted((repr(k),v) for k,v in r.positions.items()) for r in d]),
            repr(sorted((repr(k),v) for k,v in d.mapping_elem_id.items())), repr(sorted(d.mapping_id_elem.items(), key=lambda kv:kv[0])), d.is_complete, d.without_ties, d.name, repr(sc.penalty_vectors))
algs=[lambda:BordaCount(), lambda:BordaCount(True), lambda:CopelandMethod(), lambda:KwikSortRandom(), lambda:BioConsert(), lambda:BioCo(), lambda:BioConsert([CopelandMethod(),KwikSortRandom()]), lambda:PickAPerm(), lambda:ExactAlgorithmPulp(), lambda:BioConsert([PickAPerm()])]
bad=0; cnt={}
names=["a","b","c","dd","e1","f","g"]
for it in range(800):
    d=rand_dataset(random.randint(1,6),random.randint(1,4),complete=random.random()<.3,names=None if random.random()<.5 else names,allow_empty=True)
    sc=random.choice(presets+[rand_scheme()])
    s0=snap(d,sc)
    for mk in algs:
        a=mk(); one=random.random()<.5
        try:
            c=a.compute_consensus_rankings(d,sc,one)
            ks=c.kemeny_score; c.description()
        except Exception as e:
            cnt[(a.get_full_name(),type(e).__name__)]=cnt.get((a.get_full_name(),type(e).__name__),0)+1; continue
        ok = len(c)>=1 and (not one or len(c)==1)
        for r in c:
            if any(len(b)==0 for b in r) or set().union(*r.buckets)!=d.universe or sum(len(b) for b in r)!=d.nb_elements: ok=False
            if any(e.type!=next(iter(d.universe)).type for b in r for e in b): ok=False
            if ks is None or abs(naive(r,d,sc)-ks)>1e-6: ok=False; 
        if not ok: bad+=1; print("WF/SCORE",a.get_full_name(),d,sc,c,ks,[naive(r,d,sc) for r in c])
        if snap(d,sc)!=s0: bad+=1; print("MUT",a.get_full_name(),d)
        if not isinstance(a,KwikSortRandom) and 'Kwik' not in repr(a):
            c2=mk().compute_consensus_rankings(d,sc,one)
            if [r.buckets for r in c]!=[r.buckets for r in c2]: bad+=1; print("NONDET",a.get_full_name(),d,sc,c,c2)
    OrderedPartition.parcons_partition(d,sc); OrderedPartition.parfront_partition(d,sc)
    if snap(d,sc)!=s0: bad+=1; print("MUT part")
print("bad",bad); print(cnt)
