import itertools, random
from corankco import *
def naive(ranking, dataset, sc):
    B,T = sc.b_vector, sc.t_vector
    pos = {}
    for i,b in enumerate(ranking):
        for e in b: pos[e]=i
    els = list(pos); tot = 0.0
    for r in dataset:
        rp = {}
        for i,b in enumerate(r):
            for e in b: rp[e]=i
        for x,y in itertools.combinations(els,2):
            if pos[x]>pos[y]: x,y=y,x
            V = T if pos[x]==pos[y] else B
            if x in rp and y in rp: k = 0 if rp[x]<rp[y] else (1 if rp[x]>rp[y] else 2)
            elif x in rp: k=3
            elif y in rp: k=4
            else: k=5
            tot += V[k]
    return tot
def rand_buckets(els, p=.4):
    b=[]
    for e in els:
        if b and random.random()<p: b[-1].add(e)
        else: b.append({e})
    return b
def rand_dataset(n, m, complete=False, names=None, allow_empty=False):
    rs=[]
    for _ in range(m):
        els=list(range(n)) if names is None else list(names[:n]); random.shuffle(els)
        if not complete: els=els[:random.randint(0 if allow_empty else 1,n)]
        rs.append(rand_buckets(els))
    if not any(rs): rs[0]=[{0 if names is None else names[0]}]
    return Dataset.from_raw_list(rs)
def rand_scheme():
    g=[0,.25,.5,1,1.5,2,3]
    b3=random.choice(g)
    t0=random.choice(g); t3=random.choice(g)
    return ScoringScheme([[0.,random.choice(g[1:]),random.choice(g),b3,random.choice([x for x in g if x>=b3]),random.choice(g)],[t0,t0,0.,t3,t3,random.choice(g)]])
presets=[ScoringScheme.get_unifying_scoring_scheme(), ScoringScheme.get_induced_measure_scoring_scheme(), ScoringScheme.get_pseudodistance_scoring_scheme(), ScoringScheme.get_extended_measure_scoring_scheme(), ScoringScheme.get_unifying_scoring_scheme_p(.5), ScoringScheme.get_induced_measure_scoring_scheme_p(.5)]
