import os, tempfile
from corankco import *
a = ScoringScheme([[0.,1.,1.,0.,1.,1.],[1.,1.,0.,1.,1.,0.]]); b = ScoringScheme([[0.,1.,1.,0.,1.,1.],[2.,2.,0.,3.,3.,5.]])
print("D1", a.is_equivalent_to(b), a.is_equivalent_to(a*3), b.get_nickname(), (a*.5).get_nickname())
d = Dataset.from_raw_list([[{1},{2},{3}],[{2},{3},{1}],[{3},{1},{2}]])
for alg in [ExactAlgorithm(optimize=True), ExactAlgorithm(optimize=False), ParCons()]:
    c = alg.compute_consensus_rankings(d, a, True); print("D2", alg.get_full_name(), c, c.kemeny_score)
print("D3", BioCo().is_scoring_scheme_relevant_when_incomplete_rankings(a), BioCo().is_scoring_scheme_relevant_when_incomplete_rankings(ScoringScheme.get_pseudodistance_scoring_scheme()))
d2 = Dataset.from_raw_list([[{1},{2},{3}],[{2},{3},{1},{4}]]); d2.remove_elements({Element(1)}); print("D6", d2.mapping_elem_id, d2.mapping_id_elem)
d3 = Dataset.from_raw_list([[{1},{2}],[{3},{2}]]); u = d3.unified_rankings(); print("D7", u, [r.positions for r in u], d3)
s1=set(); s1.add(0); s1.add(8); s2=set(); s2.add(8); s2.add(0)
print("D8", Dataset([Ranking([s1])])==Dataset([Ranking([s2])]), Dataset.from_raw_list([[{"a b"}]])==Dataset.from_raw_list([[{"ab"}]]), Dataset.from_raw_list([[{1}],[{1}],[{2}]])==Dataset.from_raw_list([[{1}],[{2}],[{2}]]))
p = tempfile.mktemp(); d4 = Dataset([Ranking([{1},{2}]), Ranking([])]); d4.write(p); d5 = Dataset.from_file(p); print("D9", d5, d4==d5); os.remove(p)
from corankco.algorithms.exact.exactalgorithmpulp import ExactAlgorithmPulp
print("D12", ExactAlgorithmPulp().compute_consensus_rankings(Dataset.from_raw_list([[{1}]]), a, True).kemeny_score)
d = Dataset.from_raw_list([[{1}], [{3},{2}]]); print("D5", d.mapping_elem_id, BioConsert()._departure_rankings(d, a).tolist())
