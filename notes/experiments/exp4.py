import random, sys
from corankco import *
from common import *
schemes=presets+[ScoringScheme([[0.,1.,.5,.25,.75,2.],[.5,.5,0.,1.5,1.5,.25]])]
random.seed(int(sys.argv[1]) if len(sys.argv)>1 else 5)
d = Dataset.from_raw_list([[{1}], [{3},{2}]])
print(d.mapping_elem_id, d.unified_dataset().mapping_elem_id)
print(BioConsert()._departure_rankings(d, schemes[0]))
bad=0; badco=0; tot=0; ex=None; exco=None; badmulti=0
starters=[[BordaCount()],[CopelandMethod()],[PickAPerm()],[KwikSortRandom()],[BordaCount(),CopelandMethod()]]
for it in range(600):
    d = rand_dataset(random.randint(2,7), random.randint(1,5))
    sc = schemes[0] if it%2 else random.choice(schemes)
    c = BioConsert().compute_consensus_rankings(d, sc, False)
    best = min(naive(r,d,sc) for r in c); tot+=1
    if max(naive(r,d,sc) for r in c) > best+1e-9: badmulti+=1
    for u in d.unified_rankings()+[Ranking([set(e.value for e in d.universe)])]:
        if naive(u,d,sc) < best-1e-9:
            bad+=1; ex=ex or (d,sc,c,best,u,naive(u,d,sc)); break
    st = random.choice(starters)
    try:
        cs = [a.compute_consensus_rankings(d, sc, True) for a in st]
    except Exception as e:
        continue
    c2 = BioConsert(st).compute_consensus_rankings(d, sc, False)
    b2 = min(naive(r,d,sc) for r in c2)
    if not isinstance(st[0], KwikSortRandom):
      for s in cs:
        if naive(s[0],d,sc) < b2-1e-9:
            badco+=1; exco=exco or (d,sc,st,s,naive(s[0],d,sc),c2,b2); break
print(tot,"default worse than a start:",bad,"starter worse:",badco, "multi not same score", badmulti)
print(ex); print(exco)
