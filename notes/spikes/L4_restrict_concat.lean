/-! spike L4: score on keys; lexicographic regrouping never costs more (term by term) -/
namespace L4

structure Cost where
  before : Int
  after : Int
  tied : Int

def sel (c : Cost) : Ordering → Int
  | .lt => c.before
  | .gt => c.after
  | .eq => c.tied

/-- sum over pairs i<j of a list of ids -/
def sumPairs (f : Nat → Nat → Int) : List Nat → Int
  | [] => 0
  | x :: xs => (xs.map (f x)).sum + sumPairs f xs

def scoreCmp (tbl : Nat → Nat → Cost) (cmp : Nat → Nat → Ordering) (ids : List Nat) : Int :=
  sumPairs (fun i j => sel (tbl i j) (cmp i j)) ids

def cmpKey (k : Nat → Nat) (i j : Nat) : Ordering := compare (k i) (k j)
def cmpLex (g k : Nat → Nat) (i j : Nat) : Ordering := (compare (g i) (g j)).then (compare (k i) (k j))

theorem sum_map_le (l : List Nat) (f g : Nat → Int) (h : ∀ x ∈ l, f x ≤ g x) :
    (l.map f).sum ≤ (l.map g).sum := by
  induction l with
  | nil => simp
  | cons a l ih =>
    simp only [List.map_cons, List.sum_cons]
    have h1 := h a (by simp)
    have h2 := ih (fun x hx => h x (by simp [hx]))
    omega

theorem sumPairs_le (f g : Nat → Nat → Int) (l : List Nat)
    (h : ∀ x ∈ l, ∀ y ∈ l, f x y ≤ g x y) : sumPairs f l ≤ sumPairs g l := by
  induction l with
  | nil => simp [sumPairs]
  | cons a l ih =>
    simp only [sumPairs]
    have h1 := sum_map_le l (f a) (g a) (fun y hy => h a (by simp) y (by simp [hy]))
    have h2 := ih (fun x hx y hy => h x (by simp [hx]) y (by simp [hy]))
    omega

/-- hypothesis of L4 on the group function, oriented both ways (mirror law folded in) -/
def NoBackArc (tbl : Nat → Nat → Cost) (g : Nat → Nat) : Prop :=
  ∀ i j, (g i < g j → (tbl i j).before ≤ (tbl i j).after ∧ (tbl i j).before ≤ (tbl i j).tied)
       ∧ (g j < g i → (tbl i j).after ≤ (tbl i j).before ∧ (tbl i j).after ≤ (tbl i j).tied)

theorem L4_le (tbl : Nat → Nat → Cost) (g : Nat → Nat) (k : Nat → Nat) (ids : List Nat)
    (h : NoBackArc tbl g) :
    scoreCmp tbl (cmpLex g k) ids ≤ scoreCmp tbl (cmpKey k) ids := by
  unfold scoreCmp
  apply sumPairs_le
  intro i _ j _
  have hij := h i j
  unfold cmpLex cmpKey
  rcases Nat.lt_trichotomy (g i) (g j) with hlt | heq | hgt
  · have := hij.1 hlt
    rw [Nat.compare_eq_lt.mpr hlt]
    cases hc : compare (k i) (k j) <;> simp [sel, Ordering.then] <;> omega
  · simp [heq, Ordering.then]
  · have := hij.2 hgt
    rw [Nat.compare_eq_gt.mpr hgt]
    cases hc : compare (k i) (k j) <;> simp [sel, Ordering.then] <;> omega
#print axioms L4_le
end L4
