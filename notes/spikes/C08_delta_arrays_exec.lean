/-! spike: executable model of _compute_delta_costs + prefix accumulation, tested against score differences -/
namespace Bio
structure Cost where
  before : Int
  after : Int
  tied : Int
deriving Repr

def sel (c : Cost) : Ordering → Int
  | .lt => c.before | .gt => c.after | .eq => c.tied

def addAt (l : List Int) (k : Nat) (v : Int) : List Int := l.modify k (· + v)

/-- mirrors bioconsert.py:163-196 ; returns (change, add, alone) -/
def computeDelta (r : List Nat) (x : Nat) (tbl : Nat → Nat → Cost) : List Int × List Int × Bool :=
  let n := r.length
  let b := r.getD x 0
  let init : List Int × List Int × Bool × Int × Int × Int :=
    (List.replicate (n+2) 0, List.replicate (n+3) 0, true, 0, 0, 0)
  let st := (List.range n).foldl (fun (st : List Int × List Int × Bool × Int × Int × Int) e2 =>
    let (change, add, alone, ttb, tta, ttt) := st
    let b2 := r.getD e2 0
    let c := tbl x e2
    if b < b2 then
      (addAt (addAt change b2 (c.tied - c.before)) (b2+1) (c.after - c.tied),
       addAt add (b2+1) (c.after - c.before), alone, ttb, tta, ttt)
    else if b > b2 then
      let change := addAt change b2 (c.tied - c.after)
      let change := if b2 ≠ 0 then addAt change (b2-1) (c.before - c.tied) else change
      (change, addAt add b2 (c.before - c.after), alone, ttb, tta, ttt)
    else if x ≠ e2 then (change, add, false, ttb + c.before, tta + c.after, ttt + c.tied)
    else st) init
  let (change, add, alone, ttb, tta, ttt) := st
  let change := if b ≠ 0 then addAt change (b-1) (ttb - ttt) else change
  let change := addAt change (b+1) (tta - ttt)
  let add := addAt add (b+1) (tta - ttt)
  let add := addAt add b (ttb - ttt)
  (change, add, alone)

def sumRange (l : List Int) (lo hi : Nat) : Int :=  -- inclusive lo..hi
  ((List.range (hi + 1 - lo)).map (fun i => l.getD (lo + i) 0)).sum

/-- cumulative value the search reads for "join existing bucket j" -/
def changeTo (change : List Int) (b j : Nat) : Int :=
  if j > b then sumRange change (b+1) j else sumRange change j (b-1)
/-- cumulative value the search reads for "new bucket before old bucket p" -/
def addTo (add : List Int) (b p : Nat) : Int :=
  if p > b then sumRange add (b+1) p else sumRange add p b

def sumPairs (f : Nat → Nat → Int) : List Nat → Int
  | [] => 0
  | x :: xs => (xs.map (f x)).sum + sumPairs f xs

def scoreKey (tbl : Nat → Nat → Cost) (k : Nat → Nat) (n : Nat) : Int :=
  sumPairs (fun i j => sel (tbl i j) (compare (k i) (k j))) (List.range n)

/-- keys: others at 2*r[y]+1, x joins bucket j -> 2j+1 ; new bucket before p -> 2p -/
def keyJoin (r : List Nat) (x j : Nat) (y : Nat) : Nat := if y = x then 2*j+1 else 2*(r.getD y 0)+1
def keyNew (r : List Nat) (x p : Nat) (y : Nat) : Nat := if y = x then 2*p else 2*(r.getD y 0)+1
def keyCur (r : List Nat) (y : Nat) : Nat := 2*(r.getD y 0)+1

/-- all dense vectors of length n (naive) -/
def allVecs : Nat → List (List Nat)
  | 0 => [[]]
  | n+1 => (allVecs n).flatMap (fun v => (List.range (n+1)).map (fun b => b :: v))
def isDense (v : List Nat) : Bool :=
  let m := v.foldl max 0
  (List.range (m+1)).all (fun k => v.contains k)

-- a table with mirror law, pseudo-random entries
def tblOf (seed : Nat) (i j : Nat) : Cost :=
  let lo := min i j; let hi := max i j
  let h := fun k => ((seed * 7919 + lo * 104729 + hi * 1299709 + k * 15485863) % 23 : Nat)
  let c : Cost := ⟨h 1, h 2, h 3⟩
  if i ≤ j then c else ⟨c.after, c.before, c.tied⟩

def checkAll (n seed : Nat) : Nat × Nat :=   -- (cases checked, mismatches)
  let tbl := tblOf seed
  (allVecs n).filter isDense |>.foldl (fun (acc : Nat × Nat) r =>
    (List.range n).foldl (fun acc x =>
      let (change, add, alone) := computeDelta r x tbl
      let b := r.getD x 0
      let m := r.foldl max 0
      let base := scoreKey tbl (keyCur r) n
      let acc := (List.range (m+1)).foldl (fun (acc : Nat × Nat) j =>
        if j = b then acc else
        let d := scoreKey tbl (keyJoin r x j) n - base
        (acc.1 + 1, acc.2 + (if changeTo change b j = d then 0 else 1))) acc
      let acc := (List.range (m+2)).foldl (fun (acc : Nat × Nat) p =>
        let d := scoreKey tbl (keyNew r x p) n - base
        (acc.1 + 1, acc.2 + (if addTo add b p = d then 0 else 1))) acc
      let aloneSpec := (List.range n).all (fun y => y = x || r.getD y 0 ≠ b)
      (acc.1 + 1, acc.2 + (if alone = aloneSpec then 0 else 1))) acc) (0, 0)

#eval checkAll 3 1
#eval checkAll 4 2
#eval checkAll 5 3
end Bio
