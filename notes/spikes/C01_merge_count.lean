/-! spike: the merge of kemeny_score_computation.py:224-277 counts cross inversions and cross ties -/
namespace Merge

theorem length_dropWhile_le (p : Nat → Bool) (l : List Nat) : (l.dropWhile p).length ≤ l.length := by
  induction l with
  | nil => simp
  | cons a l ih => simp only [List.dropWhile]; split <;> simp <;> omega

/-- mirrors `__merge`: returns (merged, added to s_1[1], added to s_2[0]) -/
def mergeCount : List Nat → List Nat → List Nat × Nat × Nat
  | [], r => (r, 0, 0)
  | a :: l, [] => (a :: l, 0, 0)
  | a :: l, b :: r =>
    if a < b then
      let res := mergeCount l (b :: r)
      (a :: res.1, res.2.1, res.2.2)
    else if b < a then
      let res := mergeCount (a :: l) r
      (b :: res.1, res.2.1 + (l.length + 1), res.2.2)
    else
      let l1 := l.takeWhile (· == a)
      let l2 := l.dropWhile (· == a)
      let r1 := r.takeWhile (· == a)
      let r2 := r.dropWhile (· == a)
      let res := mergeCount l2 r2
      (a :: l1 ++ (b :: r1) ++ res.1,
       res.2.1 + (r1.length + 1) * l2.length,
       res.2.2 + (l1.length + 1) * (r1.length + 1))
termination_by l r => l.length + r.length
decreasing_by
  all_goals simp_wf
  all_goals
    have h1 := length_dropWhile_le (· == a) l
    have h2 := length_dropWhile_le (· == a) r
    omega

#eval mergeCount [0,0,1,3] [0,1,1,2]   -- ([0,0,0,1,1,1,2,3], inv, eq)

/-- number of (x,y) ∈ L×R with x > y -/
def crossGt (L R : List Nat) : Nat := (L.map (fun x => R.countP (· < x))).sum
/-- number of (x,y) ∈ L×R with x = y -/
def crossEq (L R : List Nat) : Nat := (L.map (fun x => R.countP (· == x))).sum

#eval (crossGt [0,0,1,3] [0,1,1,2], crossEq [0,0,1,3] [0,1,1,2])

def Sorted (l : List Nat) : Prop := l.Pairwise (· ≤ ·)

theorem crossGt_nil_right (L : List Nat) : crossGt L [] = 0 := by
  induction L with
  | nil => rfl
  | cons a L ih => simp [crossGt] at *; exact ih
theorem crossEq_nil_right (L : List Nat) : crossEq L [] = 0 := by
  induction L with
  | nil => rfl
  | cons a L ih => simp [crossEq] at *; exact ih

theorem crossGt_cons_left (a : Nat) (L R : List Nat) :
    crossGt (a :: L) R = R.countP (· < a) + crossGt L R := by simp [crossGt]
theorem crossEq_cons_left (a : Nat) (L R : List Nat) :
    crossEq (a :: L) R = R.countP (· == a) + crossEq L R := by simp [crossEq]

theorem crossGt_cons_right (b : Nat) (L R : List Nat) :
    crossGt L (b :: R) = L.countP (b < ·) + crossGt L R := by
  induction L with
  | nil => simp [crossGt]
  | cons a L ih =>
    simp only [crossGt_cons_left, ih, List.countP_cons]
    by_cases h : b < a <;> simp [h] <;> omega
theorem crossEq_cons_right (b : Nat) (L R : List Nat) :
    crossEq L (b :: R) = L.countP (· == b) + crossEq L R := by
  induction L with
  | nil => simp [crossEq]
  | cons a L ih =>
    simp only [crossEq_cons_left, ih, List.countP_cons]
    by_cases h : a = b
    · subst h; simp; omega
    · have : ¬ b = a := fun e => h e.symm
      simp [h, this]; omega

theorem countP_eq_zero_of {p : Nat → Bool} {l : List Nat} (h : ∀ x ∈ l, p x = false) : l.countP p = 0 := by
  rw [List.countP_eq_zero]; intro x hx; simp [h x hx]
theorem countP_eq_length_of {p : Nat → Bool} {l : List Nat} (h : ∀ x ∈ l, p x = true) : l.countP p = l.length := by
  rw [List.countP_eq_length]; exact h


theorem sorted_tail {a : Nat} {l : List Nat} (h : Sorted (a :: l)) : Sorted l := (List.pairwise_cons.mp h).2
theorem sorted_head_le {a : Nat} {l : List Nat} (h : Sorted (a :: l)) : ∀ x ∈ l, a ≤ x := (List.pairwise_cons.mp h).1

/-- in a sorted list starting with a, the run of a's is takeWhile, the rest is > a -/
theorem dropWhile_gt {a : Nat} {l : List Nat} (h : Sorted (a :: l)) : ∀ x ∈ l.dropWhile (· == a), a < x := by
  induction l with
  | nil => simp
  | cons b l ih =>
    have hab : a ≤ b := sorted_head_le h b (by simp)
    have hsl : Sorted (a :: l) := by
      have := List.pairwise_cons.mp h
      exact List.pairwise_cons.mpr ⟨fun x hx => this.1 x (by simp [hx]), (List.pairwise_cons.mp this.2).2⟩
    simp only [List.dropWhile]
    by_cases hb : b = a
    · subst hb; simpa using ih hsl
    · have hne : (b == a) = false := by simp [hb]
      simp only [hne]
      intro x hx
      have hbl : Sorted (b :: l) := sorted_tail h
      rcases List.mem_cons.mp hx with rfl | hx
      · omega
      · have := sorted_head_le hbl x hx; omega

theorem takeWhile_all_eq (a : Nat) (l : List Nat) : ∀ x ∈ l.takeWhile (· == a), x = a := by
  induction l with
  | nil => simp
  | cons b l ih =>
    intro x hx
    simp only [List.takeWhile] at hx
    by_cases hb : b = a
    · subst hb; simp at hx; rcases hx with rfl | hx
      · rfl
      · exact ih x hx
    · have : (b == a) = false := by simp [hb]
      simp [this] at hx

theorem sorted_dropWhile {l : List Nat} (p : Nat → Bool) (h : Sorted l) : Sorted (l.dropWhile p) :=
  List.Pairwise.sublist (List.dropWhile_sublist p) h

theorem takeWhile_append_dropWhile' (p : Nat → Bool) (l : List Nat) : l.takeWhile p ++ l.dropWhile p = l :=
  List.takeWhile_append_dropWhile

theorem crossGt_append_left (L1 L2 R : List Nat) : crossGt (L1 ++ L2) R = crossGt L1 R + crossGt L2 R := by
  simp [crossGt]
theorem crossEq_append_left (L1 L2 R : List Nat) : crossEq (L1 ++ L2) R = crossEq L1 R + crossEq L2 R := by
  simp [crossEq]
theorem crossGt_append_right (L R1 R2 : List Nat) : crossGt L (R1 ++ R2) = crossGt L R1 + crossGt L R2 := by
  induction L with
  | nil => simp [crossGt]
  | cons a L ih => simp only [crossGt_cons_left, ih, List.countP_append]; omega
theorem crossEq_append_right (L R1 R2 : List Nat) : crossEq L (R1 ++ R2) = crossEq L R1 + crossEq L R2 := by
  induction L with
  | nil => simp [crossEq]
  | cons a L ih => simp only [crossEq_cons_left, ih, List.countP_append]; omega

/-- all of L equal a, all of R equal a -/
theorem cross_const (a : Nat) (L R : List Nat) (hL : ∀ x ∈ L, x = a) (hR : ∀ x ∈ R, x = a) :
    crossGt L R = 0 ∧ crossEq L R = L.length * R.length := by
  induction L with
  | nil => simp [crossGt, crossEq]
  | cons x L ih =>
    have hx : x = a := hL x (by simp)
    have ih' := ih (fun y hy => hL y (by simp [hy]))
    subst hx
    have c1 : R.countP (· < x) = 0 := countP_eq_zero_of (fun y hy => by simp [hR y hy])
    have c2 : R.countP (· == x) = R.length := countP_eq_length_of (fun y hy => by simp [hR y hy])
    simp only [crossGt_cons_left, crossEq_cons_left, c1, c2, ih'.1, ih'.2, List.length_cons]
    have e : (L.length + 1) * R.length = L.length * R.length + R.length := by rw [Nat.add_mul, Nat.one_mul]
    refine ⟨?_, ?_⟩ <;> first | trivial | omega | (rw [e, Nat.add_comm]) | (rw [e])

/-- all of L > everything in R  -/
theorem cross_all_gt (L R : List Nat) (h : ∀ x ∈ L, ∀ y ∈ R, y < x) :
    crossGt L R = L.length * R.length ∧ crossEq L R = 0 := by
  induction L with
  | nil => simp [crossGt, crossEq]
  | cons x L ih =>
    have ih' := ih (fun y hy => h y (by simp [hy]))
    have c1 : R.countP (· < x) = R.length := countP_eq_length_of (fun y hy => by simpa using h x (by simp) y hy)
    have c2 : R.countP (· == x) = 0 := countP_eq_zero_of (fun y hy => by have := h x (by simp) y hy; simp; omega)
    simp only [crossGt_cons_left, crossEq_cons_left, c1, c2, ih'.1, ih'.2, List.length_cons]
    have e : (L.length + 1) * R.length = L.length * R.length + R.length := by rw [Nat.add_mul, Nat.one_mul]
    refine ⟨?_, ?_⟩ <;> first | trivial | omega | (rw [e, Nat.add_comm]) | (rw [e])

/-- all of L < everything in R, or ≤ with no equality... : nothing counted -/
theorem cross_all_lt (L R : List Nat) (h : ∀ x ∈ L, ∀ y ∈ R, x < y) :
    crossGt L R = 0 ∧ crossEq L R = 0 := by
  induction L with
  | nil => simp [crossGt, crossEq]
  | cons x L ih =>
    have ih' := ih (fun y hy => h y (by simp [hy]))
    have c1 : R.countP (· < x) = 0 := countP_eq_zero_of (fun y hy => by have := h x (by simp) y hy; simp; omega)
    have c2 : R.countP (· == x) = 0 := countP_eq_zero_of (fun y hy => by have := h x (by simp) y hy; simp; omega)
    simp [crossGt_cons_left, crossEq_cons_left, c1, c2, ih'.1, ih'.2]

theorem mergeCount_counts (L R : List Nat) (hL : Sorted L) (hR : Sorted R) :
    (mergeCount L R).2 = (crossGt L R, crossEq L R) := by
  fun_induction mergeCount L R with
  | case1 r => simp [crossGt, crossEq]
  | case2 a l => simp [crossGt_nil_right, crossEq_nil_right]
  | case3 a l b r hab res ih =>
    have ih' := ih (sorted_tail hL) hR
    have hb : ∀ y ∈ b :: r, a < y := by
      intro y hy; rcases List.mem_cons.mp hy with rfl | hy
      · exact hab
      · have := sorted_head_le hR y hy; omega
    have c1 : (b :: r).countP (· < a) = 0 := countP_eq_zero_of (fun y hy => by have := hb y hy; simp; omega)
    have c2 : (b :: r).countP (· == a) = 0 := countP_eq_zero_of (fun y hy => by have := hb y hy; simp; omega)
    simp only [crossGt_cons_left, crossEq_cons_left, c1, c2]
    simp only [res] at *
    rw [Prod.ext_iff] at ih' ⊢
    simp at ih' ⊢
    omega
  | case4 a l b r hab hba res ih =>
    have ih' := ih hL (sorted_tail hR)
    have ha : ∀ x ∈ a :: l, b < x := by
      intro x hx; rcases List.mem_cons.mp hx with rfl | hx
      · exact hba
      · have := sorted_head_le hL x hx; omega
    have c1 : (a :: l).countP (b < ·) = (a :: l).length := countP_eq_length_of (fun x hx => by simpa using ha x hx)
    have c2 : (a :: l).countP (· == b) = 0 := countP_eq_zero_of (fun x hx => by have := ha x hx; simp; omega)
    rw [crossGt_cons_right, crossEq_cons_right, c1, c2]
    simp only [res] at *
    rw [Prod.ext_iff] at ih' ⊢
    simp at ih' ⊢
    omega
  | case5 a l b r hab hba l1 l2 r1 r2 res ih =>
    have hEq : b = a := by omega
    subst hEq
    have hl2s : Sorted l2 := sorted_dropWhile _ (sorted_tail hL)
    have hr2s : Sorted r2 := sorted_dropWhile _ (sorted_tail hR)
    have ih' := ih hl2s hr2s
    have hl : b :: l = (b :: l1) ++ l2 := by simp [l1, l2, List.takeWhile_append_dropWhile]
    have hr : b :: r = (b :: r1) ++ r2 := by simp [r1, r2, List.takeWhile_append_dropWhile]
    have hl1 : ∀ x ∈ b :: l1, x = b := by
      intro x hx; rcases List.mem_cons.mp hx with rfl | hx
      · rfl
      · exact takeWhile_all_eq b l x hx
    have hr1 : ∀ x ∈ b :: r1, x = b := by
      intro x hx; rcases List.mem_cons.mp hx with rfl | hx
      · rfl
      · exact takeWhile_all_eq b r x hx
    have hl2 : ∀ x ∈ l2, b < x := dropWhile_gt hL
    have hr2 : ∀ x ∈ r2, b < x := dropWhile_gt hR
    have A := cross_const b (b :: l1) (b :: r1) hl1 hr1
    have B := cross_all_lt (b :: l1) r2 (fun x hx y hy => by rw [hl1 x hx]; exact hr2 y hy)
    have C := cross_all_gt l2 (b :: r1) (fun x hx y hy => by rw [hr1 y hy]; exact hl2 x hx)
    rw [hl, hr]
    simp only [crossGt_append_left, crossGt_append_right, crossEq_append_left, crossEq_append_right,
      A.1, A.2, B.1, B.2, C.1, C.2]
    simp only [res] at *
    rw [Prod.ext_iff] at ih' ⊢
    simp only [List.length_cons] at *
    simp at ih' ⊢
    constructor
    · rw [ih'.1, Nat.mul_comm]; omega
    · rw [ih'.2]; omega
#print axioms mergeCount_counts
end Merge
